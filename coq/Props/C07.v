(* C07 - decode histories on a pre-sized store keep an invariant: every delivered chunk holds the blob's
   bytes and the pairs on its path are the blob's; undelivered chunks and slots keep their initial zeros.
   Statements only; proofs and definitions in Proofs/Hist*.v:
     ob_sized ob size bs     kind PreIO / PostIO / PreMem / PostMem, tree (size, bs), all (blocks - 1) slots present
     pnodes size bs          the persisted nodes of the tree's pre-order listing
     Inv data bs D (t, ob)   the invariant for the set D of delivered chunks
     delivered ys c          chunk c lies in a leaf item of ys
     init_target, init_ob    the all-zero initial state
     grp_full D ga           every chunk of group ga is in D
     nondegenerate data      no chunk of the blob is all zeros
     op / hist_step          an operation (query, stream, sink faults, sync or fsm decoder) and its effect on (target, outboard)
                             = the target and outboard returned by decode_ranges_f / decode_ranges_fsm_f. *)
From BaoV Require Import Model.IO Spec.EncSpec Spec.HashAssm.
From BaoV Require Import Proofs.DecForest Proofs.DecRanges Proofs.ValSpec Proofs.ValPath Proofs.ValTop Proofs.ValSound
  Proofs.HistOb Proofs.HistPath Proofs.HistEnc Proofs.HistInv Proofs.HistStep.

(* the initial state satisfies the invariant with nothing delivered *)
Theorem C07_inv_init : forall (HO : hops) (data : bytes HO) (bs : N), blen HO data <= 2 ^ 63 -> bs <= 10 ->
  forall k, hist_kind k -> Inv HO data bs (fun _ => false) (init_target HO data, init_ob HO data bs k).
Proof. exact init_inv. Qed.
Print Assumptions C07_inv_init.

(* 5 (core): writing / saving any prefix of the honest encoding of any query keeps the invariant and adds the
   chunks of the written leaves; no save fails *)
Theorem C07_inv_apply : forall (HO : hops), hash_ok HO ->
  forall (data : bytes HO) (bs : N), blen HO data <= 2 ^ 63 -> bs <= 10 ->
  forall D (t : bytes HO) (ob : outboard HO) q ys,
  Inv HO data bs D (t, ob) -> is_prefix ys (honest HO data bs q) ->
  exists t' ob', apply_items HO ys t ob = (SOk, t', ob') /\
                 Inv HO data bs (fun c => D c || delivered HO ys c) (t', ob').
Proof. exact inv_apply. Qed.
Print Assumptions C07_inv_apply.

(* 6 (target): once every chunk is delivered the target is the blob *)
Theorem C07_converges_target : forall (HO : hops) (data : bytes HO) (bs : N) D (st : bytes HO * outboard HO),
  Inv HO data bs D st -> (forall c, c < nchunks (blen HO data) -> D c = true) -> fst st = data.
Proof. exact inv_converges_target. Qed.
Print Assumptions C07_converges_target.

(* 7: in a state of the invariant valid_ranges reports exactly the touched groups all of whose chunks are
   delivered (more than one group; non-degeneracy: no all-zero chunk in the blob) *)
Theorem C07_validator_exact : forall (HO : hops), hash_ok HO ->
  forall (data : bytes HO) (bs : N), blen HO data <= 2 ^ 63 -> bs <= 10 ->
  forall D (t : bytes HO) (ob : outboard HO) q,
  Inv HO data bs D (t, ob) -> nondegenerate HO data -> 2 <= sp_blocks (blen HO data) bs -> wf_ranges q = true ->
  valid_ranges HO ob t q =
  (flat_map (fun ga => if touchedb q (blen HO data) bs ga && grp_full HO data bs D ga
                       then [(grp_start bs ga, grp_end (blen HO data) bs ga)] else [])
            (chunk_range_list 0 (sp_blocks (blen HO data) bs)), Ok tt).
Proof. exact inv_validator_exact. Qed.
Print Assumptions C07_validator_exact.

(* 5: a step of a history - decode_ranges (sync or fsm) of ANY stream for a well-formed query, with any sink
   fault plan - keeps the invariant; the delivered set grows by the chunks of the leaves of the prefix ys of the
   honest encoding that the step wrote *)
Theorem C07_inv_step_sync : forall (HO : hops), hash_ok HO ->
  forall (data : bytes HO) (bs : N), blen HO data <= 2 ^ 63 -> bs <= 10 ->
  forall D sf (enc : bytes HO) q (t : bytes HO) (ob : outboard HO),
  wf_ranges q = true -> Inv HO data bs D (t, ob) ->
  exists ys, is_prefix ys (honest HO data bs q) /\
    let r := decode_ranges_f HO sf enc q t ob in
    Inv HO data bs (fun c => D c || delivered HO ys c) (snd (fst (fst r)), snd (fst r)).
Proof. exact inv_step_sync. Qed.
Print Assumptions C07_inv_step_sync.

Theorem C07_inv_step_fsm : forall (HO : hops), hash_ok HO ->
  forall (data : bytes HO) (bs : N), blen HO data <= 2 ^ 63 -> bs <= 10 ->
  forall D sf (enc : bytes HO) q (t : bytes HO) (ob : outboard HO),
  wf_ranges q = true -> Inv HO data bs D (t, ob) ->
  exists ys, is_prefix ys (honest HO data bs q) /\
    let r := decode_ranges_fsm_f HO sf enc q t ob in
    Inv HO data bs (fun c => D c || delivered HO ys c) (snd (fst (fst r)), snd (fst r)).
Proof. exact inv_step_fsm. Qed.
Print Assumptions C07_inv_step_fsm.

Theorem C07_inv_step : forall (HO : hops), hash_ok HO ->
  forall (data : bytes HO) (bs : N), blen HO data <= 2 ^ 63 -> bs <= 10 ->
  forall D (st : bytes HO * outboard HO) (o : op HO),
  wf_ranges (op_q HO o) = true -> Inv HO data bs D st ->
  exists ys, is_prefix ys (honest HO data bs (op_q HO o)) /\
             Inv HO data bs (fun c => D c || delivered HO ys c) (hist_step HO st o).
Proof. exact inv_step. Qed.
Print Assumptions C07_inv_step.

(* any history from any state of the invariant (the initial one in particular) ends in a state of the invariant,
   and the delivered set only grows *)
Theorem C07_inv_history : forall (HO : hops), hash_ok HO ->
  forall (data : bytes HO) (bs : N), blen HO data <= 2 ^ 63 -> bs <= 10 ->
  forall ops : list (op HO), Forall (fun o => wf_ranges (op_q HO o) = true) ops ->
  forall D st, Inv HO data bs D st ->
  exists D', Inv HO data bs D' (fold_left (hist_step HO) ops st) /\ forall c, D c = true -> D' c = true.
Proof. exact inv_history. Qed.
Print Assumptions C07_inv_history.

(* 6 (outboard), partial: once every chunk is delivered, every pair on the path of every group is the blob's *)
Theorem C07_converges_pairs_partial : forall (HO : hops) (data : bytes HO) (bs : N),
  blen HO data <= 2 ^ 63 -> bs <= 10 ->
  forall D (st : bytes HO * outboard HO), Inv HO data bs D st -> (forall c, c < nchunks (blen HO data) -> D c = true) ->
  forall ga, ga < sp_blocks (blen HO data) bs -> path_true HO data bs (snd st) ga.
Proof. exact inv_converges_pairs. Qed.
Print Assumptions C07_converges_pairs_partial.

(* loads of a pre-sized outboard never fail on tree nodes, and the fsm load agrees: C06 applies to the states
   of a history, sync and fsm alike *)
Theorem C07_sized_loads : forall (HO : hops) (size bs : N), size <= 2 ^ 63 -> bs <= 10 ->
  forall (ob : outboard HO) nd, ob_sized HO ob size bs -> In nd (sp_pre_nodes size bs) ->
  (exists x, load_sync HO ob nd = Ok x) /\ load_fsm HO ob nd = load_sync HO ob nd.
Proof. exact sized_loads. Qed.
Print Assumptions C07_sized_loads.

(* ======== Final composition (proofs in Proofs/FinalConv.v): convergence ========
   created_store HO data bs ob (Props/C03.v, C03_created_store_def): ob has one of the four kinds, the blob's
   tree and root hash, and its bytes are the specified outboard - i.e. ob is exactly the store the crate
   creates for the blob (C03_created_entry_points), so C02_roundtrip_full_*, C05_created_store_ok and
   C06_created_store_complete apply to it. *)
From BaoV Require Import Model.Sync Spec.NodeSpec Proofs.FinalStore Proofs.FinalConv.

(* every persisted node of the Shape lies on the path of some chunk group (the converse of the fact that the
   nodes of a path are persisted nodes), so C07_converges_pairs_partial covers every stored pair *)
Theorem C07_pnode_on_path : forall (size bs : N), size <= 2 ^ 63 -> bs <= 10 ->
  forall nd, In nd (sp_pre_nodes size bs) -> sp_persisted size bs nd = true ->
  exists ga rt, ga < sp_blocks size bs /\ In (nd, rt) (top_path size bs ga).
Proof. exact c07_pnode_on_path. Qed.
Print Assumptions C07_pnode_on_path.

(* 6, complete: once every chunk is delivered the target is the blob and the outboard is the blob's *)
Theorem C07_converges : forall (HO : hops), hash_ok HO ->
  forall (data : bytes HO) (bs : N), blen HO data <= 2 ^ 63 -> bs <= 10 ->
  forall D (st : bytes HO * outboard HO),
  Inv HO data bs D st -> (forall c, c < nchunks (blen HO data) -> D c = true) ->
  fst st = data /\
  ob_data (snd st) = spec_outboard HO (match ob_k (snd st) with PostIO | PostMem => true | _ => false end) data bs /\
  created_store HO data bs (snd st).
Proof. exact c07_converges. Qed.
Print Assumptions C07_converges.

(* any history from any state of the invariant: if the delivered set of the final state covers all chunks, the
   final state is (the blob, the blob's store) *)
Theorem C07_history_converges : forall (HO : hops), hash_ok HO ->
  forall (data : bytes HO) (bs : N), blen HO data <= 2 ^ 63 -> bs <= 10 ->
  forall ops : list (op HO), Forall (fun o => wf_ranges (op_q HO o) = true) ops ->
  forall D st, Inv HO data bs D st ->
  exists D', Inv HO data bs D' (fold_left (hist_step HO) ops st) /\ (forall c, D c = true -> D' c = true) /\
    ((forall c, c < nchunks (blen HO data) -> D' c = true) ->
     fst (fold_left (hist_step HO) ops st) = data /\
     created_store HO data bs (snd (fold_left (hist_step HO) ops st))).
Proof. exact c07_history_converges. Qed.
Print Assumptions C07_history_converges.

Theorem C07_history_converges_init : forall (HO : hops), hash_ok HO ->
  forall (data : bytes HO) (bs : N), blen HO data <= 2 ^ 63 -> bs <= 10 ->
  forall k, hist_kind k ->
  forall ops : list (op HO), Forall (fun o => wf_ranges (op_q HO o) = true) ops ->
  exists D', Inv HO data bs D' (fold_left (hist_step HO) ops (init_target HO data, init_ob HO data bs k)) /\
    ((forall c, c < nchunks (blen HO data) -> D' c = true) ->
     fst (fold_left (hist_step HO) ops (init_target HO data, init_ob HO data bs k)) = data /\
     created_store HO data bs (snd (fold_left (hist_step HO) ops (init_target HO data, init_ob HO data bs k)))).
Proof. exact c07_history_converges_init. Qed.
Print Assumptions C07_history_converges_init.

(* the fsm validators in a state of the invariant return what the sync ones return (the loaders agree on the
   nodes of the tree: C07_sized_loads, C06_sync_eq_fsm_tree); hence C07_validator_exact for valid_ranges_fsm *)
Theorem C07_validator_exact_fsm : forall (HO : hops), hash_ok HO ->
  forall (data : bytes HO) (bs : N), blen HO data <= 2 ^ 63 -> bs <= 10 ->
  forall D (t : bytes HO) (ob : outboard HO) q,
  Inv HO data bs D (t, ob) ->
  (valid_ranges_fsm HO ob t q = valid_ranges HO ob t q /\
   valid_outboard_ranges_fsm HO ob q = valid_outboard_ranges HO ob q) /\
  (nondegenerate HO data -> 2 <= sp_blocks (blen HO data) bs -> wf_ranges q = true ->
   valid_ranges_fsm HO ob t q =
   (flat_map (fun ga => if touchedb q (blen HO data) bs ga && grp_full HO data bs D ga
                        then [(grp_start bs ga, grp_end (blen HO data) bs ga)] else [])
             (chunk_range_list 0 (sp_blocks (blen HO data) bs)), Ok tt)).
Proof. exact c07_validator_exact_fsm. Qed.
Print Assumptions C07_validator_exact_fsm.

(* ---- end-to-end download (Proofs/E2EDownload*.v) ---- *)
From BaoV Require Import Model.IO Spec.RangeSpec Spec.EncSpec Spec.HashAssm
  Proofs.HistOb Proofs.HistEnc Proofs.HistInv Proofs.HistStep Proofs.FinalStore
  Proofs.E2EDownload Proofs.E2EDownloadStep Proofs.E2EDownloadConv.

(* the leaves of the honest encoding of a query carry exactly the selected chunks (the guards wf_ranges q,
   bs <= 10 and c < nchunks are not needed by the proof: outside the blob both sides are false, and the empty
   blob has the one chunk 0 of length 0) *)
Theorem C07_delivered_honest : forall (HO : hops) (data : bytes HO) (bs : N) (q : ranges) (c : N),
  wf_ranges q = true -> (blen HO data <= 2 ^ 63)%N -> (bs <= 10)%N -> (c < nchunks (blen HO data))%N ->
  delivered HO (honest HO data bs q) c = sel q (blen HO data) c.
Proof. exact delivered_honest. Qed.
Print Assumptions C07_delivered_honest.

(* a fault-free step (sync or fsm decoder) fed the whole honest encoding of its query, followed by any bytes,
   adds exactly the selection of the query to the delivered set *)
Theorem C07_full_step : forall (HO : hops), hash_ok HO ->
  forall (data : bytes HO) (bs : N), (blen HO data <= 2 ^ 63)%N -> (bs <= 10)%N ->
  forall q : ranges, wf_ranges q = true ->
  forall (D : N -> bool) (st : bytes HO * outboard HO) (rest : bytes HO) (fsm : bool),
  Inv HO data bs D st ->
  Inv HO data bs (fun c => D c || sel q (blen HO data) c)
      (hist_step HO st (mkOp HO q (flat HO (honest HO data bs q) ++ rest) no_faults fsm)).
Proof. exact full_step. Qed.
Print Assumptions C07_full_step.

(* from the all-zero initial state of any kind, fault-free steps (any interleaving of the sync and fsm decoders)
   each fed the honest encoding of its query followed by any bytes: if the queries select every chunk of the blob,
   the final state is the blob and the blob's created store of that kind *)
Theorem C07_download_converges : forall (HO : hops), hash_ok HO ->
  forall (data : bytes HO) (bs : N), (blen HO data <= 2 ^ 63)%N -> (bs <= 10)%N ->
  forall k, hist_kind k ->
  forall ops : list (op HO),
  Forall (fun o => wf_ranges (op_q HO o) = true /\ op_sf HO o = no_faults /\
                   exists rest, op_enc HO o = flat HO (honest HO data bs (op_q HO o)) ++ rest) ops ->
  (forall c, (c < nchunks (blen HO data))%N -> exists o, In o ops /\ sel (op_q HO o) (blen HO data) c = true) ->
  fst (fold_left (hist_step HO) ops (init_target HO data, init_ob HO data bs k)) = data /\
  created_store HO data bs (snd (fold_left (hist_step HO) ops (init_target HO data, init_ob HO data bs k))) /\
  ob_k (snd (fold_left (hist_step HO) ops (init_target HO data, init_ob HO data bs k))) = k.
Proof. exact download_converges. Qed.
Print Assumptions C07_download_converges.

(* the single query ChunkRanges::all() = [0] suffices *)
Theorem C07_download_all : forall (HO : hops), hash_ok HO ->
  forall (data : bytes HO) (bs : N), (blen HO data <= 2 ^ 63)%N -> (bs <= 10)%N ->
  forall k, hist_kind k ->
  forall (rest : bytes HO) (fsm : bool),
  fst (hist_step HO (init_target HO data, init_ob HO data bs k)
         (mkOp HO [0%N] (flat HO (honest HO data bs [0%N]) ++ rest) no_faults fsm)) = data /\
  created_store HO data bs
    (snd (hist_step HO (init_target HO data, init_ob HO data bs k)
            (mkOp HO [0%N] (flat HO (honest HO data bs [0%N]) ++ rest) no_faults fsm))) /\
  ob_k (snd (hist_step HO (init_target HO data, init_ob HO data bs k)
               (mkOp HO [0%N] (flat HO (honest HO data bs [0%N]) ++ rest) no_faults fsm))) = k.
Proof. exact download_all. Qed.
Print Assumptions C07_download_all.

(* the hypotheses of C07_download_converges are satisfiable: a blob of 3 chunks over the term-algebra hash, groups
   of 2 chunks, the queries [0, 1) (sync) and [1, oo) (fsm, one trailing byte), neither of which covers the blob *)
Theorem C07_download_nonvacuous :
  exists (HO : hops) (data : bytes HO) (bs : N) (k : ob_kind) (ops : list (op HO)),
    hash_ok HO /\ (blen HO data <= 2 ^ 63)%N /\ (bs <= 10)%N /\ hist_kind k /\
    nchunks (blen HO data) = 3%N /\ length ops = 2%nat /\
    Forall (fun o => wf_ranges (op_q HO o) = true /\ op_sf HO o = no_faults /\
                     exists rest, op_enc HO o = flat HO (honest HO data bs (op_q HO o)) ++ rest) ops /\
    (forall c, (c < nchunks (blen HO data))%N -> exists o, In o ops /\ sel (op_q HO o) (blen HO data) c = true) /\
    (forall o, In o ops -> exists c, (c < nchunks (blen HO data))%N /\ sel (op_q HO o) (blen HO data) c = false).
Proof. exact download_nonvacuous. Qed.
Print Assumptions C07_download_nonvacuous.

(* no step of a history (any stream, any sink faults, either decoder) changes the kind of the store *)
Theorem C07_hist_step_kind : forall (HO : hops), hash_ok HO ->
  forall (data : bytes HO) (bs : N), (blen HO data <= 2 ^ 63)%N -> (bs <= 10)%N ->
  forall (D : N -> bool) (st : bytes HO * outboard HO) (o : op HO),
  wf_ranges (op_q HO o) = true -> Inv HO data bs D st ->
  ob_k (snd (hist_step HO st o)) = ob_k (snd st).
Proof. exact hist_step_kind. Qed.
Print Assumptions C07_hist_step_kind.

(* ======== Gap audit H (proofs in Proofs/GapHNodes.v, GapHFrame.v, GapHVal.v, GapHShort.v, GapHFault.v) ========
   (c) the frame of a history as an explicit theorem, relative to an ARBITRARY initial content (InvR);
   (e) convergence of histories with failed / truncated / corrupted steps in the middle;
   (d) the OUTBOARD-only validators, sync and fsm, in the states of a history;
   (a) io-backed sinks that are NOT pre-sized (and targets of any length): what is kept, what the validators say,
       and a witness that the 'pre-sized' premise is needed for the sync validators;
   (b) failing sink calls on the honest stream: exactly which items are applied before the failure. *)
From BaoV Require Import Model.IO Model.Sync Model.Fsm Spec.RangeSpec Spec.NodeSpec Spec.EncSpec Spec.HashAssm.
From BaoV Require Import Proofs.DecForest Proofs.DecRanges Proofs.ValSpec Proofs.ValPath Proofs.ValTop Proofs.ValSound
  Proofs.HistOb Proofs.HistEnc Proofs.HistInv Proofs.HistStep Proofs.FinalStore Proofs.GapTarget Proofs.GapValFsmView
  Proofs.GapHNodes Proofs.GapHFrame Proofs.GapHVal Proofs.GapHShort Proofs.GapHFault Proofs.GapHExtra.
Local Open Scope N_scope.

(* ---- (c) the frame, relative to any initial state ----
   InvR t0 ob0 D P (t, ob): D = the chunks delivered so far, P = the nodes whose pair has been saved so far *)

Theorem C07_InvR_def : forall (HO : hops) (data : bytes HO) (bs : N) (t0 : bytes HO) (ob0 : outboard HO)
  (D P : N -> bool) (st : bytes HO * outboard HO),
  InvR HO data bs t0 ob0 D P st <->
  (length (fst st) = length data /\
   (forall c, c < nchunks (blen HO data) ->
      chunk_bytes HO (fst st) c (c + 1) = if D c then chunk_bytes HO data c (c + 1) else chunk_bytes HO t0 c (c + 1)) /\
   ob_sized HO (snd st) (blen HO data) bs /\
   ob_root (snd st) = root_hash HO data /\
   ob_k (snd st) = ob_k ob0 /\
   (forall nd, pnode (blen HO data) bs nd ->
      stored_pair HO (snd st) nd = if P nd then Some (true_pair HO data nd) else stored_pair HO ob0 nd) /\
   (forall c, c < nchunks (blen HO data) -> D c = true ->
      forall nd rt, In (nd, rt) (top_path (blen HO data) bs (c / 2 ^ bs)) -> P nd = true)).
Proof. exact gaph_InvR_def. Qed.
Print Assumptions C07_InvR_def.

(* saved ys nd: nd is the node of a parent item of ys *)
Theorem C07_saved_def : forall (HO : hops) (ys : list (item HO)) (nd : N),
  saved HO ys nd = true <-> exists l r, In (IParent nd l r) ys.
Proof. exact gaph_saved_def. Qed.
Print Assumptions C07_saved_def.

(* any target of the blob's length and any pre-sized outboard carrying the blob's root, whatever their bytes *)
Theorem C07_InvR_init : forall (HO : hops) (data : bytes HO) (bs : N) (t0 : bytes HO) (ob0 : outboard HO),
  length t0 = length data -> ob_sized HO ob0 (blen HO data) bs -> ob_root ob0 = root_hash HO data ->
  InvR HO data bs t0 ob0 (fun _ => false) (fun _ => false) (t0, ob0).
Proof. exact gaph_InvR_init. Qed.
Print Assumptions C07_InvR_init.

(* a step of a history (any stream, any sink fault plan, sync or fsm): no byte of the target outside the chunks of the written leaves changes, no slot other than those of the saved nodes changes, and the changed ones hold the blob's bytes / pairs *)
Theorem C07_InvR_step : forall (HO : hops), hash_ok HO ->
  forall (data : bytes HO) (bs : N), blen HO data <= 2 ^ 63 -> bs <= 10 ->
  forall (t0 : bytes HO) (ob0 : outboard HO) (D P : N -> bool) (st : bytes HO * outboard HO) (o : op HO),
  wf_ranges (op_q HO o) = true -> InvR HO data bs t0 ob0 D P st ->
  exists ys, is_prefix ys (honest HO data bs (op_q HO o)) /\
    InvR HO data bs t0 ob0 (fun c => D c || delivered HO ys c) (fun nd => P nd || saved HO ys nd) (hist_step HO st o).
Proof. exact gaph_InvR_step. Qed.
Print Assumptions C07_InvR_step.

Theorem C07_InvR_history : forall (HO : hops), hash_ok HO ->
  forall (data : bytes HO) (bs : N), blen HO data <= 2 ^ 63 -> bs <= 10 ->
  forall (t0 : bytes HO) (ob0 : outboard HO) (ops : list (op HO)),
  Forall (fun o => wf_ranges (op_q HO o) = true) ops ->
  forall (D P : N -> bool) (st : bytes HO * outboard HO), InvR HO data bs t0 ob0 D P st ->
  exists D' P', InvR HO data bs t0 ob0 D' P' (fold_left (hist_step HO) ops st) /\
    (forall c, D c = true -> D' c = true) /\ (forall nd, P nd = true -> P' nd = true).
Proof. exact gaph_InvR_history. Qed.
Print Assumptions C07_InvR_history.

(* parents are saved before the leaves below them: in any prefix of the honest encoding, every node on the path of the group of a delivered chunk is the node of a parent item of the prefix *)
Theorem C07_path_saved : forall (HO : hops), hash_ok HO ->
  forall (data : bytes HO) (bs : N), blen HO data <= 2 ^ 63 -> bs <= 10 ->
  forall (q : ranges) (ys : list (item HO)) (c nd : N) (rt : bool),
  wf_ranges q = true -> is_prefix ys (honest HO data bs q) -> delivered HO ys c = true ->
  In (nd, rt) (top_path (blen HO data) bs (c / 2 ^ bs)) -> saved HO ys nd = true.
Proof. exact gaph_path_saved. Qed.
Print Assumptions C07_path_saved.

(* the bytes of the slot of a node that was never saved are those of the initial store (every slot index below blocks - 1 is the offset of a persisted node: C12_pre_offsets / C12_post_offsets) *)
Theorem C07_InvR_slot_bytes : forall (HO : hops) (data : bytes HO) (bs : N), blen HO data <= 2 ^ 63 -> bs <= 10 ->
  forall (t0 : bytes HO) (ob0 : outboard HO) (D P : N -> bool) (st : bytes HO * outboard HO) (nd : N),
  InvR HO data bs t0 ob0 D P st -> ob_sized HO ob0 (blen HO data) bs ->
  pnode (blen HO data) bs nd -> P nd = false ->
  exists o, ob_offset HO (snd st) nd = Some o /\ ob_offset HO ob0 nd = Some o /\ o < sp_blocks (blen HO data) bs - 1 /\
            slice HO (o * 64) 64 (ob_data (snd st)) = slice HO (o * 64) 64 (ob_data ob0).
Proof. exact gaph_InvR_slot_bytes. Qed.
Print Assumptions C07_InvR_slot_bytes.

(* the invariant Inv of this file is the instance for the all-zero initial state *)
Theorem C07_InvR_zero_Inv : forall (HO : hops) (data : bytes HO) (bs : N), blen HO data <= 2 ^ 63 -> bs <= 10 ->
  forall k D P st, hist_kind k ->
  InvR HO data bs (init_target HO data) (init_ob HO data bs k) D P st -> Inv HO data bs D st.
Proof. exact gaph_InvR_zero_Inv. Qed.
Print Assumptions C07_InvR_zero_Inv.

(* convergence from any initial content *)
Theorem C07_InvR_converges : forall (HO : hops), hash_ok HO ->
  forall (data : bytes HO) (bs : N), blen HO data <= 2 ^ 63 -> bs <= 10 ->
  forall (t0 : bytes HO) (ob0 : outboard HO) (D P : N -> bool) (st : bytes HO * outboard HO),
  InvR HO data bs t0 ob0 D P st -> hist_kind (ob_k ob0) ->
  (forall c, c < nchunks (blen HO data) -> D c = true) ->
  fst st = data /\ created_store HO data bs (snd st).
Proof. exact gaph_InvR_converges. Qed.
Print Assumptions C07_InvR_converges.

Theorem C07_converges_any_init : forall (HO : hops), hash_ok HO ->
  forall (data : bytes HO) (bs : N), blen HO data <= 2 ^ 63 -> bs <= 10 ->
  forall (t0 : bytes HO) (ob0 : outboard HO),
  length t0 = length data -> ob_sized HO ob0 (blen HO data) bs -> ob_root ob0 = root_hash HO data ->
  forall ops : list (op HO), Forall (fun o => wf_ranges (op_q HO o) = true) ops ->
  exists D' P', InvR HO data bs t0 ob0 D' P' (fold_left (hist_step HO) ops (t0, ob0)) /\
    ((forall c, c < nchunks (blen HO data) -> D' c = true) ->
     fst (fold_left (hist_step HO) ops (t0, ob0)) = data /\
     created_store HO data bs (snd (fold_left (hist_step HO) ops (t0, ob0)))).
Proof. exact gaph_converges_any_init. Qed.
Print Assumptions C07_converges_any_init.

(* ---- (e) faults in the middle ---- *)

(* failed, truncated and corrupted steps may be interleaved at will with good ones (honest stream, no sink fault); if the good ones select every chunk between them the final state is the blob and its created store *)
Theorem C07_converges_with_faults : forall (HO : hops), hash_ok HO ->
  forall (data : bytes HO) (bs : N), blen HO data <= 2 ^ 63 -> bs <= 10 ->
  forall k, hist_kind k ->
  forall ops : list (op HO), Forall (fun o => wf_ranges (op_q HO o) = true) ops ->
  (forall c, c < nchunks (blen HO data) ->
     exists o, In o ops /\ op_sf HO o = no_faults /\
       (exists rest, op_enc HO o = flat HO (honest HO data bs (op_q HO o)) ++ rest) /\
       sel (op_q HO o) (blen HO data) c = true) ->
  fst (fold_left (hist_step HO) ops (init_target HO data, init_ob HO data bs k)) = data /\
  created_store HO data bs (snd (fold_left (hist_step HO) ops (init_target HO data, init_ob HO data bs k))) /\
  ob_k (snd (fold_left (hist_step HO) ops (init_target HO data, init_ob HO data bs k))) = k.
Proof. exact gaph_converges_with_faults. Qed.
Print Assumptions C07_converges_with_faults.

Theorem C07_converges_with_faults_nonvacuous :
  exists (HO : hops) (data : bytes HO) (bs : N) (k : ob_kind) (ops : list (op HO)),
    hash_ok HO /\ blen HO data <= 2 ^ 63 /\ bs <= 10 /\ hist_kind k /\ length ops = 2%nat /\
    Forall (fun o => wf_ranges (op_q HO o) = true) ops /\
    (exists o, In o ops /\ op_sf HO o <> no_faults) /\
    (forall c, c < nchunks (blen HO data) ->
       exists o, In o ops /\ op_sf HO o = no_faults /\
         (exists rest, op_enc HO o = flat HO (honest HO data bs (op_q HO o)) ++ rest) /\
         sel (op_q HO o) (blen HO data) c = true).
Proof. exact gaph_converges_with_faults_nonvacuous. Qed.
Print Assumptions C07_converges_with_faults_nonvacuous.

(* ---- (d) the outboard-only validators ---- *)

(* in every state of a history (any initial content): valid_outboard_ranges and its fsm twin agree, end with Ok, report exactly the touched groups whose whole path holds the blob's pairs, among them every touched group with a delivered chunk *)
Theorem C07_obval_reported : forall (HO : hops), hash_ok HO ->
  forall (data : bytes HO) (bs : N), blen HO data <= 2 ^ 63 -> bs <= 10 ->
  forall (t0 : bytes HO) (ob0 : outboard HO) (D P : N -> bool) (t : bytes HO) (ob : outboard HO) (q : ranges),
  InvR HO data bs t0 ob0 D P (t, ob) -> 2 <= sp_blocks (blen HO data) bs -> wf_ranges q = true ->
  valid_outboard_ranges_fsm HO ob q = valid_outboard_ranges HO ob q /\
  snd (valid_outboard_ranges HO ob q) = Ok tt /\
  (forall a e, In (a, e) (fst (valid_outboard_ranges HO ob q)) <->
     exists ga, ga < sp_blocks (blen HO data) bs /\ a = grp_start bs ga /\ e = grp_end (blen HO data) bs ga /\
                touched q (blen HO data) bs ga /\ path_true HO data bs ob ga) /\
  (forall c, c < nchunks (blen HO data) -> D c = true -> touched q (blen HO data) bs (c / 2 ^ bs) ->
     In (grp_start bs (c / 2 ^ bs), grp_end (blen HO data) bs (c / 2 ^ bs)) (fst (valid_outboard_ranges HO ob q))).
Proof. exact gaph_obval_reported. Qed.
Print Assumptions C07_obval_reported.

Theorem C07_pairs_nondegenerate_def : forall (HO : hops) (data : bytes HO) (bs : N),
  pairs_nondegenerate HO data bs <->
  (forall nd, pnode (blen HO data) bs nd -> true_pair HO data nd <> zero_pair HO).
Proof. exact gaph_pairs_nondegenerate_def. Qed.
Print Assumptions C07_pairs_nondegenerate_def.

(* from the all-zero initial state, when no pair of the blob is the zero pair: exactly the touched groups all of whose path nodes have been saved (a superset of the groups with a delivered chunk: a stream cut between a parent and the leaf below it saves the pair without delivering the chunk) *)
Theorem C07_obval_exact_zero : forall (HO : hops), hash_ok HO ->
  forall (data : bytes HO) (bs : N), blen HO data <= 2 ^ 63 -> bs <= 10 ->
  forall k (D P : N -> bool) (t : bytes HO) (ob : outboard HO) (q : ranges), hist_kind k ->
  InvR HO data bs (init_target HO data) (init_ob HO data bs k) D P (t, ob) ->
  pairs_nondegenerate HO data bs -> 2 <= sp_blocks (blen HO data) bs -> wf_ranges q = true ->
  valid_outboard_ranges HO ob q =
  (flat_map (fun ga => if touchedb q (blen HO data) bs ga && forallb P (map fst (top_path (blen HO data) bs ga))
                       then [(grp_start bs ga, grp_end (blen HO data) bs ga)] else [])
            (chunk_range_list 0 (sp_blocks (blen HO data) bs)), Ok tt) /\
  valid_outboard_ranges_fsm HO ob q = valid_outboard_ranges HO ob q /\
  (forall c, c < nchunks (blen HO data) -> D c = true ->
     forallb P (map fst (top_path (blen HO data) bs (c / 2 ^ bs))) = true).
Proof. exact gaph_obval_exact_zero. Qed.
Print Assumptions C07_obval_exact_zero.

Theorem C07_obval_nonvacuous :
  exists (HO : hops) (data : bytes HO) (bs : N) (k : ob_kind) (q : ranges),
    hash_ok HO /\ blen HO data <= 2 ^ 63 /\ bs <= 10 /\ hist_kind k /\
    InvR HO data bs (init_target HO data) (init_ob HO data bs k) (fun _ => false) (fun _ => false)
         (init_target HO data, init_ob HO data bs k) /\
    pairs_nondegenerate HO data bs /\ sp_blocks (blen HO data) bs = 3 /\ wf_ranges q = true.
Proof. exact gaph_obval_nonvacuous. Qed.
Print Assumptions C07_obval_nonvacuous.

(* the DATA validators on a single-group blob (C07_validator_exact needs two groups): the blob is reported iff every chunk is delivered, whatever the query (with one group the crate's validators do not look at the query: C06_data_single); the outboard-only validators then always report the blob (C06_outboard_single: no pair to check) *)
Theorem C07_validator_exact_single : forall (HO : hops), hash_ok HO ->
  forall (data : bytes HO) (bs : N), blen HO data <= 2 ^ 63 -> bs <= 10 ->
  forall D (t : bytes HO) (ob : outboard HO) q,
  Inv HO data bs D (t, ob) -> nondegenerate HO data -> sp_blocks (blen HO data) bs = 1 ->
  valid_ranges HO ob t q =
    ((if forallb D (chunk_range_list 0 (nchunks (blen HO data))) then [(0, chunks (blen HO data))] else []), Ok tt) /\
  valid_ranges_fsm HO ob t q = valid_ranges HO ob t q.
Proof. exact val_exact_single. Qed.
Print Assumptions C07_validator_exact_single.

Theorem C07_validator_exact_single_nonvacuous :
  exists (HO : hops) (data : bytes HO) (bs : N) (k : ob_kind),
    hash_ok HO /\ blen HO data <= 2 ^ 63 /\ bs <= 10 /\ hist_kind k /\
    Inv HO data bs (fun _ => false) (init_target HO data, init_ob HO data bs k) /\
    nondegenerate HO data /\ sp_blocks (blen HO data) bs = 1 /\ nchunks (blen HO data) = 2.
Proof. exact val_exact_single_nonvacuous. Qed.
Print Assumptions C07_validator_exact_single_nonvacuous.

(* ---- (a) sinks that are not pre-sized ----
   pad (Props/C01.v, C01_pad_def); is_io k = true for PreIO / PostIO (Props/C06.v, C06_is_io_def) *)

Theorem C07_short_defs : forall (HO : hops) (data : bytes HO) (bs : N) (D : N -> bool) (st : bytes HO * outboard HO),
  (forall ob : outboard HO,
     ob_pad HO data bs ob =
     mkOb (ob_k ob) (ob_root ob) (ob_tree ob) (pad HO (N.to_nat ((sp_blocks (blen HO data) bs - 1) * 64)) (ob_data ob))) /\
  pad_state HO data bs st = (pad HO (length data) (fst st), ob_pad HO data bs (snd st)) /\
  (ShortInv HO data bs D st <->
   is_io (ob_k (snd st)) = true /\ blen HO (ob_data (snd st)) mod 64 = 0 /\ Inv HO data bs D (pad_state HO data bs st)).
Proof. exact gaph_short_defs. Qed.
Print Assumptions C07_short_defs.

Theorem C07_short_pad_id : forall (HO : hops) (data : bytes HO) (bs : N), blen HO data <= 2 ^ 63 -> bs <= 10 ->
  forall ob : outboard HO, ob_sized HO ob (blen HO data) bs -> ob_pad HO data bs ob = ob.
Proof. exact gaph_short_pad_id. Qed.
Print Assumptions C07_short_pad_id.

(* an empty (or all-zero, whole-slot) io-backed outboard file and an empty (or all-zero) data file *)
Theorem C07_short_init : forall (HO : hops) (data : bytes HO) (bs : N), blen HO data <= 2 ^ 63 -> bs <= 10 ->
  forall (k : ob_kind) (a j : nat), is_io k = true ->
  ShortInv HO data bs (fun _ => false)
    (zeros HO a, mkOb k (root_hash HO data) (mkTree (blen HO data) bs) (zeros HO (64 * j))).
Proof. exact gaph_short_init. Qed.
Print Assumptions C07_short_init.

(* every step keeps ShortInv, touches nothing beyond the first (blocks - 1) * 64 bytes of the store and the first |blob| bytes of the target, and never shrinks either *)
Theorem C07_short_step : forall (HO : hops), hash_ok HO ->
  forall (data : bytes HO) (bs : N), blen HO data <= 2 ^ 63 -> bs <= 10 ->
  forall (D : N -> bool) (st : bytes HO * outboard HO) (o : op HO),
  wf_ranges (op_q HO o) = true -> ShortInv HO data bs D st ->
  exists ys, is_prefix ys (honest HO data bs (op_q HO o)) /\
    ShortInv HO data bs (fun c => D c || delivered HO ys c) (hist_step HO st o) /\
    skipn (N.to_nat ((sp_blocks (blen HO data) bs - 1) * 64)) (ob_data (snd (hist_step HO st o))) =
      skipn (N.to_nat ((sp_blocks (blen HO data) bs - 1) * 64)) (ob_data (snd st)) /\
    skipn (length data) (fst (hist_step HO st o)) = skipn (length data) (fst st) /\
    blen HO (ob_data (snd st)) <= blen HO (ob_data (snd (hist_step HO st o))) /\
    (length (fst st) <= length (fst (hist_step HO st o)))%nat.
Proof. exact gaph_short_step. Qed.
Print Assumptions C07_short_step.

Theorem C07_short_history : forall (HO : hops), hash_ok HO ->
  forall (data : bytes HO) (bs : N), blen HO data <= 2 ^ 63 -> bs <= 10 ->
  forall ops : list (op HO), Forall (fun o => wf_ranges (op_q HO o) = true) ops ->
  forall (D : N -> bool) (st : bytes HO * outboard HO), ShortInv HO data bs D st ->
  exists D', ShortInv HO data bs D' (fold_left (hist_step HO) ops st) /\ (forall c, D c = true -> D' c = true) /\
    skipn (N.to_nat ((sp_blocks (blen HO data) bs - 1) * 64)) (ob_data (snd (fold_left (hist_step HO) ops st))) =
      skipn (N.to_nat ((sp_blocks (blen HO data) bs - 1) * 64)) (ob_data (snd st)) /\
    skipn (length data) (fst (fold_left (hist_step HO) ops st)) = skipn (length data) (fst st).
Proof. exact gaph_short_history. Qed.
Print Assumptions C07_short_history.

(* the FSM validators on such a state (target of the blob's length) are the sync validators on the padded store, hence report exactly the fully delivered groups *)
Theorem C07_short_validator_fsm : forall (HO : hops), hash_ok HO ->
  forall (data : bytes HO) (bs : N), blen HO data <= 2 ^ 63 -> bs <= 10 ->
  forall (D : N -> bool) (t : bytes HO) (ob : outboard HO) (q : ranges),
  ShortInv HO data bs D (t, ob) -> length t = length data ->
  (valid_ranges_fsm HO ob t q = valid_ranges HO (ob_pad HO data bs ob) t q /\
   valid_outboard_ranges_fsm HO ob q = valid_outboard_ranges HO (ob_pad HO data bs ob) q) /\
  (nondegenerate HO data -> 2 <= sp_blocks (blen HO data) bs -> wf_ranges q = true ->
   valid_ranges_fsm HO ob t q =
   (flat_map (fun ga => if touchedb q (blen HO data) bs ga && grp_full HO data bs D ga
                        then [(grp_start bs ga, grp_end (blen HO data) bs ga)] else [])
             (chunk_range_list 0 (sp_blocks (blen HO data) bs)), Ok tt)).
Proof. exact gaph_short_validator_fsm. Qed.
Print Assumptions C07_short_validator_fsm.

Theorem C07_short_converges : forall (HO : hops), hash_ok HO ->
  forall (data : bytes HO) (bs : N), blen HO data <= 2 ^ 63 -> bs <= 10 ->
  forall (D : N -> bool) (st : bytes HO * outboard HO),
  ShortInv HO data bs D st -> (forall c, c < nchunks (blen HO data) -> D c = true) ->
  pad HO (length data) (fst st) = data /\ created_store HO data bs (ob_pad HO data bs (snd st)).
Proof. exact gaph_short_converges. Qed.
Print Assumptions C07_short_converges.

(* the 'pre-sized' premise is needed for the SYNC validators: after one fault-free decode of the last chunk into a pre-sized target and an EMPTY PreOrderOutboard file (3 chunks, block size 0) the store holds 64 of its 128 bytes; valid_ranges and valid_outboard_ranges stop with UnexpectedEof and report nothing, the fsm twins report exactly the delivered chunk (finding F9 reached through the crate's own decoder) *)
Theorem C07_unsized_sync_validator_refuted :
  exists (HO : hops) (data : bytes HO) (bs : N) (ob0 : outboard HO) (o : op HO),
    hash_ok HO /\ blen HO data <= 2 ^ 63 /\ bs <= 10 /\ nondegenerate HO data /\ sp_blocks (blen HO data) bs = 3 /\
    ob0 = mkOb PreIO (root_hash HO data) (mkTree (blen HO data) bs) [] /\
    wf_ranges (op_q HO o) = true /\ op_sf HO o = no_faults /\
    op_enc HO o = flat HO (honest HO data bs (op_q HO o)) /\
    let st := hist_step HO (init_target HO data, ob0) o in
    (exists D, ShortInv HO data bs D st) /\
    length (fst st) = length data /\ blen HO (ob_data (snd st)) = 64 /\
    valid_ranges HO (snd st) (fst st) [0] = ([], Err KUnexpectedEof) /\
    valid_outboard_ranges HO (snd st) [0] = ([], Err KUnexpectedEof) /\
    valid_ranges_fsm HO (snd st) (fst st) [0] = ([(2, 3)], Ok tt) /\
    valid_outboard_ranges_fsm HO (snd st) [0] = ([(2, 3)], Ok tt).
Proof. exact gaph_unsized_sync_validator_refuted. Qed.
Print Assumptions C07_unsized_sync_validator_refuted.

(* ---- (b) failing sink calls on the honest stream ---- *)

(* fault_cut sf ys nw ns = (the items applied before the first sink call that sf makes fail, whether one is reached) *)
Theorem C07_fault_cut_def : forall (HO : hops) (sf : sink_faults) (nw ns : N),
  fault_cut HO sf [] nw ns = ([], false) /\
  (forall nd l r ys, fault_cut HO sf (IParent nd l r :: ys) nw ns =
     if hits (sf_save sf) ns then ([], true)
     else (IParent nd l r :: fst (fault_cut HO sf ys nw (ns + 1)), snd (fault_cut HO sf ys nw (ns + 1)))) /\
  (forall off d ys, fault_cut HO sf (ILeaf off d :: ys) nw ns =
     if hits (sf_target sf) nw then ([], true)
     else (ILeaf off d :: fst (fault_cut HO sf ys (nw + 1) ns), snd (fault_cut HO sf ys (nw + 1) ns))).
Proof. exact gaph_fault_cut_def. Qed.
Print Assumptions C07_fault_cut_def.

Theorem C07_counts_def : forall (HO : hops) (ys : list (item HO)),
  n_leaves HO ys = N.of_nat (length (filter (fun it => match it with ILeaf _ _ => true | _ => false end) ys)) /\
  n_parents HO ys = N.of_nat (length (filter (fun it => match it with IParent _ _ _ => true | _ => false end) ys)).
Proof. exact gaph_counts_def. Qed.
Print Assumptions C07_counts_def.

(* no fault: everything; always a prefix; the j-th target write fails: the cut is just before leaf number j; the j-th save fails: just before parent number j *)
Theorem C07_fault_cut_facts : forall (HO : hops) (ys : list (item HO)),
  fault_cut HO no_faults ys 0 0 = (ys, false) /\
  (forall sf, is_prefix (fst (fault_cut HO sf ys 0 0)) ys) /\
  (forall j kind, let p := fault_cut HO (mkSF (Some j) None kind) ys 0 0 in
     (snd p = true -> exists off d rest, ys = fst p ++ ILeaf off d :: rest /\ n_leaves HO (fst p) = j) /\
     (snd p = false -> fst p = ys /\ n_leaves HO ys <= j)) /\
  (forall j kind, let p := fault_cut HO (mkSF None (Some j) kind) ys 0 0 in
     (snd p = true -> exists nd l r rest, ys = fst p ++ IParent nd l r :: rest /\ n_parents HO (fst p) = j) /\
     (snd p = false -> fst p = ys /\ n_parents HO ys <= j)).
Proof. exact gaph_fault_cut_facts. Qed.
Print Assumptions C07_fault_cut_facts.

(* both drivers on the honest stream of any well-formed query under any sink fault plan: exactly fst (fault_cut ..) is applied; Err (DIo kind) if a failing call is reached, Ok with the reader at the end of the encoding otherwise *)
Theorem C07_fault_exact : forall (HO : hops), hash_ok HO ->
  forall (data : bytes HO) (bs : N) (q : ranges), blen HO data <= 2 ^ 63 -> bs <= 10 -> wf_ranges q = true ->
  forall (sf : sink_faults) (rest t : bytes HO) (ob : outboard HO) (t' : bytes HO) (ob' : outboard HO),
  ob_root ob = root_hash HO data -> ob_tree ob = mkTree (blen HO data) bs ->
  apply_items HO (fst (fault_cut HO sf (honest HO data bs q) 0 0)) t ob = (SOk, t', ob') ->
  (exists st', decode_ranges_f HO sf (flat HO (honest HO data bs q) ++ rest) q t ob =
     ((if snd (fault_cut HO sf (honest HO data bs q) 0 0) then Err (DIo (sf_kind sf)) else Ok tt), t', ob', st') /\
     (snd (fault_cut HO sf (honest HO data bs q) 0 0) = false -> d_enc HO st' = rest)) /\
  (exists st', decode_ranges_fsm_f HO sf (flat HO (honest HO data bs q) ++ rest) q t ob =
     ((if snd (fault_cut HO sf (honest HO data bs q) 0 0) then Err (DIo (sf_kind sf)) else Ok tt), t', ob', st') /\
     (snd (fault_cut HO sf (honest HO data bs q) 0 0) = false -> Fsm.r_enc HO st' = rest)).
Proof. exact gaph_fault_exact. Qed.
Print Assumptions C07_fault_exact.

(* the same as a step of a history from a state of the invariant *)
Theorem C07_fault_step : forall (HO : hops), hash_ok HO ->
  forall (data : bytes HO) (bs : N), blen HO data <= 2 ^ 63 -> bs <= 10 ->
  forall (q : ranges) (sf : sink_faults) (rest : bytes HO) (fsm : bool) (D : N -> bool) (t : bytes HO) (ob : outboard HO),
  wf_ranges q = true -> Inv HO data bs D (t, ob) ->
  let cut := fault_cut HO sf (honest HO data bs q) 0 0 in
  let o := mkOp HO q (flat HO (honest HO data bs q) ++ rest) sf fsm in
  is_prefix (fst cut) (honest HO data bs q) /\
  apply_items HO (fst cut) t ob = (SOk, fst (hist_step HO (t, ob) o), snd (hist_step HO (t, ob) o)) /\
  Inv HO data bs (fun c => D c || delivered HO (fst cut) c) (hist_step HO (t, ob) o) /\
  (fsm = false -> fst (fst (fst (decode_ranges_f HO sf (flat HO (honest HO data bs q) ++ rest) q t ob))) =
                  if snd cut then Err (DIo (sf_kind sf)) else Ok tt) /\
  (fsm = true -> fst (fst (fst (decode_ranges_fsm_f HO sf (flat HO (honest HO data bs q) ++ rest) q t ob))) =
                 if snd cut then Err (DIo (sf_kind sf)) else Ok tt).
Proof. exact gaph_fault_step. Qed.
Print Assumptions C07_fault_step.

Theorem C07_fault_cut_nonvacuous :
  exists (HO : hops) (data : bytes HO) (bs : N) (q : ranges) (sf : sink_faults),
    hash_ok HO /\ blen HO data <= 2 ^ 63 /\ bs <= 10 /\ wf_ranges q = true /\
    snd (fault_cut HO sf (honest HO data bs q) 0 0) = true /\
    length (fst (fault_cut HO sf (honest HO data bs q) 0 0)) = 2%nat /\
    length (honest HO data bs q) = 5%nat.
Proof. exact gaph_fault_cut_nonvacuous. Qed.
Print Assumptions C07_fault_cut_nonvacuous.

(* ---- collision form (Proofs/Collision.v; depends on Classical_Prop.classic and on nothing else): the idealised hypothesis
   cv_injective is dropped; under 32-byte outputs and a correct byte comparison the conclusion holds OR the hash functions
   have a collision between two distinct valid inputs ---- *)
From BaoV Require Import Proofs.Collision.
Theorem C07_inv_history_or_collision : forall (HO : hops), cv_len32 HO -> beq_correct HO ->
  (forall (data : bytes HO) (bs : N), blen HO data <= 2 ^ 63 -> bs <= 10 ->
  forall ops : list (op HO), Forall (fun o => wf_ranges (op_q HO o) = true) ops ->
  forall D st, Inv HO data bs D st ->
  exists D', Inv HO data bs D' (fold_left (hist_step HO) ops st) /\ forall c, D c = true -> D' c = true) \/
  collision HO.
Proof. intros HO Hl Hb. apply (or_collision HO _ Hl Hb). exact (C07_inv_history HO). Qed.
Print Assumptions C07_inv_history_or_collision.

Theorem C07_InvR_history_or_collision : forall (HO : hops), cv_len32 HO -> beq_correct HO ->
  (forall (data : bytes HO) (bs : N), blen HO data <= 2 ^ 63 -> bs <= 10 ->
  forall (t0 : bytes HO) (ob0 : outboard HO) (ops : list (op HO)),
  Forall (fun o => wf_ranges (op_q HO o) = true) ops ->
  forall (D P : N -> bool) (st : bytes HO * outboard HO), InvR HO data bs t0 ob0 D P st ->
  exists D' P', InvR HO data bs t0 ob0 D' P' (fold_left (hist_step HO) ops st) /\
    (forall c, D c = true -> D' c = true) /\ (forall nd, P nd = true -> P' nd = true)) \/
  collision HO.
Proof. intros HO Hl Hb. apply (or_collision HO _ Hl Hb). exact (C07_InvR_history HO). Qed.
Print Assumptions C07_InvR_history_or_collision.

