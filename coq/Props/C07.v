(* C07 - decode histories on a pre-sized store keep an invariant: every delivered chunk holds the blob's
   bytes and the pairs on its path are the blob's; undelivered chunks and slots keep their initial zeros.
   Statements only; proofs and definitions in Proofs/Hist*.v:
     ob_sized ob size bs     kind PreIO / PostIO / PreMem / PostMem, tree (size, bs), all (blocks - 1) slots present
     pnodes size bs          the persisted nodes of the tree's pre-order listing
     Inv data bs D (t, ob)   the invariant for the set D of delivered chunks
     delivered ys c          chunk c lies in a leaf item of ys
     init_target, init_ob    the all-zero initial state
     grp_full D ga           every chunk of group ga is in D
     nondegenerate data      no chunk of the blob is all zeros
     op / hist_step          an operation (query, stream, sink faults, sync or fsm decoder) and its effect on (target, outboard)
                             = the target and outboard returned by decode_ranges_f / decode_ranges_fsm_f. *)
From BaoV Require Import Model.IO Spec.EncSpec Spec.HashAssm.
From BaoV Require Import Proofs.DecForest Proofs.DecRanges Proofs.ValSpec Proofs.ValPath Proofs.ValTop Proofs.ValSound
  Proofs.HistOb Proofs.HistPath Proofs.HistEnc Proofs.HistInv Proofs.HistStep.

(* the initial state satisfies the invariant with nothing delivered *)
Theorem C07_inv_init : forall (HO : hops) (data : bytes HO) (bs : N), blen HO data <= 2 ^ 63 -> bs <= 10 ->
  forall k, hist_kind k -> Inv HO data bs (fun _ => false) (init_target HO data, init_ob HO data bs k).
Proof. exact init_inv. Qed.
Print Assumptions C07_inv_init.

(* 5 (core): writing / saving any prefix of the honest encoding of any query keeps the invariant and adds the
   chunks of the written leaves; no save fails *)
Theorem C07_inv_apply : forall (HO : hops), hash_ok HO ->
  forall (data : bytes HO) (bs : N), blen HO data <= 2 ^ 63 -> bs <= 10 ->
  forall D (t : bytes HO) (ob : outboard HO) q ys,
  Inv HO data bs D (t, ob) -> is_prefix ys (honest HO data bs q) ->
  exists t' ob', apply_items HO ys t ob = (SOk, t', ob') /\
                 Inv HO data bs (fun c => D c || delivered HO ys c) (t', ob').
Proof. exact inv_apply. Qed.
Print Assumptions C07_inv_apply.

(* 6 (target): once every chunk is delivered the target is the blob *)
Theorem C07_converges_target : forall (HO : hops) (data : bytes HO) (bs : N) D (st : bytes HO * outboard HO),
  Inv HO data bs D st -> (forall c, c < nchunks (blen HO data) -> D c = true) -> fst st = data.
Proof. exact inv_converges_target. Qed.
Print Assumptions C07_converges_target.

(* 7: in a state of the invariant valid_ranges reports exactly the touched groups all of whose chunks are
   delivered (more than one group; non-degeneracy: no all-zero chunk in the blob) *)
Theorem C07_validator_exact : forall (HO : hops), hash_ok HO ->
  forall (data : bytes HO) (bs : N), blen HO data <= 2 ^ 63 -> bs <= 10 ->
  forall D (t : bytes HO) (ob : outboard HO) q,
  Inv HO data bs D (t, ob) -> nondegenerate HO data -> 2 <= sp_blocks (blen HO data) bs -> wf_ranges q = true ->
  valid_ranges HO ob t q =
  (flat_map (fun ga => if touchedb q (blen HO data) bs ga && grp_full HO data bs D ga
                       then [(grp_start bs ga, grp_end (blen HO data) bs ga)] else [])
            (chunk_range_list 0 (sp_blocks (blen HO data) bs)), Ok tt).
Proof. exact inv_validator_exact. Qed.
Print Assumptions C07_validator_exact.

(* 5: a step of a history - decode_ranges (sync or fsm) of ANY stream for a well-formed query, with any sink
   fault plan - keeps the invariant; the delivered set grows by the chunks of the leaves of the prefix ys of the
   honest encoding that the step wrote *)
Theorem C07_inv_step_sync : forall (HO : hops), hash_ok HO ->
  forall (data : bytes HO) (bs : N), blen HO data <= 2 ^ 63 -> bs <= 10 ->
  forall D sf (enc : bytes HO) q (t : bytes HO) (ob : outboard HO),
  wf_ranges q = true -> Inv HO data bs D (t, ob) ->
  exists ys, is_prefix ys (honest HO data bs q) /\
    let r := decode_ranges_f HO sf enc q t ob in
    Inv HO data bs (fun c => D c || delivered HO ys c) (snd (fst (fst r)), snd (fst r)).
Proof. exact inv_step_sync. Qed.
Print Assumptions C07_inv_step_sync.

Theorem C07_inv_step_fsm : forall (HO : hops), hash_ok HO ->
  forall (data : bytes HO) (bs : N), blen HO data <= 2 ^ 63 -> bs <= 10 ->
  forall D sf (enc : bytes HO) q (t : bytes HO) (ob : outboard HO),
  wf_ranges q = true -> Inv HO data bs D (t, ob) ->
  exists ys, is_prefix ys (honest HO data bs q) /\
    let r := decode_ranges_fsm_f HO sf enc q t ob in
    Inv HO data bs (fun c => D c || delivered HO ys c) (snd (fst (fst r)), snd (fst r)).
Proof. exact inv_step_fsm. Qed.
Print Assumptions C07_inv_step_fsm.

Theorem C07_inv_step : forall (HO : hops), hash_ok HO ->
  forall (data : bytes HO) (bs : N), blen HO data <= 2 ^ 63 -> bs <= 10 ->
  forall D (st : bytes HO * outboard HO) (o : op HO),
  wf_ranges (op_q HO o) = true -> Inv HO data bs D st ->
  exists ys, is_prefix ys (honest HO data bs (op_q HO o)) /\
             Inv HO data bs (fun c => D c || delivered HO ys c) (hist_step HO st o).
Proof. exact inv_step. Qed.
Print Assumptions C07_inv_step.

(* any history from any state of the invariant (the initial one in particular) ends in a state of the invariant,
   and the delivered set only grows *)
Theorem C07_inv_history : forall (HO : hops), hash_ok HO ->
  forall (data : bytes HO) (bs : N), blen HO data <= 2 ^ 63 -> bs <= 10 ->
  forall ops : list (op HO), Forall (fun o => wf_ranges (op_q HO o) = true) ops ->
  forall D st, Inv HO data bs D st ->
  exists D', Inv HO data bs D' (fold_left (hist_step HO) ops st) /\ forall c, D c = true -> D' c = true.
Proof. exact inv_history. Qed.
Print Assumptions C07_inv_history.

(* 6 (outboard), partial: once every chunk is delivered, every pair on the path of every group is the blob's *)
Theorem C07_converges_pairs_partial : forall (HO : hops) (data : bytes HO) (bs : N),
  blen HO data <= 2 ^ 63 -> bs <= 10 ->
  forall D (st : bytes HO * outboard HO), Inv HO data bs D st -> (forall c, c < nchunks (blen HO data) -> D c = true) ->
  forall ga, ga < sp_blocks (blen HO data) bs -> path_true HO data bs (snd st) ga.
Proof. exact inv_converges_pairs. Qed.
Print Assumptions C07_converges_pairs_partial.

(* loads of a pre-sized outboard never fail on tree nodes, and the fsm load agrees: C06 applies to the states
   of a history, sync and fsm alike *)
Theorem C07_sized_loads : forall (HO : hops) (size bs : N), size <= 2 ^ 63 -> bs <= 10 ->
  forall (ob : outboard HO) nd, ob_sized HO ob size bs -> In nd (sp_pre_nodes size bs) ->
  (exists x, load_sync HO ob nd = Ok x) /\ load_fsm HO ob nd = load_sync HO ob nd.
Proof. exact sized_loads. Qed.
Print Assumptions C07_sized_loads.

(* ======== Final composition (proofs in Proofs/FinalConv.v): convergence ========
   created_store HO data bs ob (Props/C03.v, C03_created_store_def): ob has one of the four kinds, the blob's
   tree and root hash, and its bytes are the specified outboard - i.e. ob is exactly the store the crate
   creates for the blob (C03_created_entry_points), so C02_roundtrip_full_*, C05_created_store_ok and
   C06_created_store_complete apply to it. *)
From BaoV Require Import Model.Sync Spec.NodeSpec Proofs.FinalStore Proofs.FinalConv.

(* every persisted node of the Shape lies on the path of some chunk group (the converse of the fact that the
   nodes of a path are persisted nodes), so C07_converges_pairs_partial covers every stored pair *)
Theorem C07_pnode_on_path : forall (size bs : N), size <= 2 ^ 63 -> bs <= 10 ->
  forall nd, In nd (sp_pre_nodes size bs) -> sp_persisted size bs nd = true ->
  exists ga rt, ga < sp_blocks size bs /\ In (nd, rt) (top_path size bs ga).
Proof. exact c07_pnode_on_path. Qed.
Print Assumptions C07_pnode_on_path.

(* 6, complete: once every chunk is delivered the target is the blob and the outboard is the blob's *)
Theorem C07_converges : forall (HO : hops), hash_ok HO ->
  forall (data : bytes HO) (bs : N), blen HO data <= 2 ^ 63 -> bs <= 10 ->
  forall D (st : bytes HO * outboard HO),
  Inv HO data bs D st -> (forall c, c < nchunks (blen HO data) -> D c = true) ->
  fst st = data /\
  ob_data (snd st) = spec_outboard HO (match ob_k (snd st) with PostIO | PostMem => true | _ => false end) data bs /\
  created_store HO data bs (snd st).
Proof. exact c07_converges. Qed.
Print Assumptions C07_converges.

(* any history from any state of the invariant: if the delivered set of the final state covers all chunks, the
   final state is (the blob, the blob's store) *)
Theorem C07_history_converges : forall (HO : hops), hash_ok HO ->
  forall (data : bytes HO) (bs : N), blen HO data <= 2 ^ 63 -> bs <= 10 ->
  forall ops : list (op HO), Forall (fun o => wf_ranges (op_q HO o) = true) ops ->
  forall D st, Inv HO data bs D st ->
  exists D', Inv HO data bs D' (fold_left (hist_step HO) ops st) /\ (forall c, D c = true -> D' c = true) /\
    ((forall c, c < nchunks (blen HO data) -> D' c = true) ->
     fst (fold_left (hist_step HO) ops st) = data /\
     created_store HO data bs (snd (fold_left (hist_step HO) ops st))).
Proof. exact c07_history_converges. Qed.
Print Assumptions C07_history_converges.

Theorem C07_history_converges_init : forall (HO : hops), hash_ok HO ->
  forall (data : bytes HO) (bs : N), blen HO data <= 2 ^ 63 -> bs <= 10 ->
  forall k, hist_kind k ->
  forall ops : list (op HO), Forall (fun o => wf_ranges (op_q HO o) = true) ops ->
  exists D', Inv HO data bs D' (fold_left (hist_step HO) ops (init_target HO data, init_ob HO data bs k)) /\
    ((forall c, c < nchunks (blen HO data) -> D' c = true) ->
     fst (fold_left (hist_step HO) ops (init_target HO data, init_ob HO data bs k)) = data /\
     created_store HO data bs (snd (fold_left (hist_step HO) ops (init_target HO data, init_ob HO data bs k)))).
Proof. exact c07_history_converges_init. Qed.
Print Assumptions C07_history_converges_init.

(* the fsm validators in a state of the invariant return what the sync ones return (the loaders agree on the
   nodes of the tree: C07_sized_loads, C06_sync_eq_fsm_tree); hence C07_validator_exact for valid_ranges_fsm *)
Theorem C07_validator_exact_fsm : forall (HO : hops), hash_ok HO ->
  forall (data : bytes HO) (bs : N), blen HO data <= 2 ^ 63 -> bs <= 10 ->
  forall D (t : bytes HO) (ob : outboard HO) q,
  Inv HO data bs D (t, ob) ->
  (valid_ranges_fsm HO ob t q = valid_ranges HO ob t q /\
   valid_outboard_ranges_fsm HO ob q = valid_outboard_ranges HO ob q) /\
  (nondegenerate HO data -> 2 <= sp_blocks (blen HO data) bs -> wf_ranges q = true ->
   valid_ranges_fsm HO ob t q =
   (flat_map (fun ga => if touchedb q (blen HO data) bs ga && grp_full HO data bs D ga
                        then [(grp_start bs ga, grp_end (blen HO data) bs ga)] else [])
             (chunk_range_list 0 (sp_blocks (blen HO data) bs)), Ok tt)).
Proof. exact c07_validator_exact_fsm. Qed.
Print Assumptions C07_validator_exact_fsm.

(* ---- end-to-end download (Proofs/E2EDownload*.v) ---- *)
From BaoV Require Import Model.IO Spec.RangeSpec Spec.EncSpec Spec.HashAssm
  Proofs.HistOb Proofs.HistEnc Proofs.HistInv Proofs.HistStep Proofs.FinalStore
  Proofs.E2EDownload Proofs.E2EDownloadStep Proofs.E2EDownloadConv.

(* the leaves of the honest encoding of a query carry exactly the selected chunks (the guards wf_ranges q,
   bs <= 10 and c < nchunks are not needed by the proof: outside the blob both sides are false, and the empty
   blob has the one chunk 0 of length 0) *)
Theorem C07_delivered_honest : forall (HO : hops) (data : bytes HO) (bs : N) (q : ranges) (c : N),
  wf_ranges q = true -> (blen HO data <= 2 ^ 63)%N -> (bs <= 10)%N -> (c < nchunks (blen HO data))%N ->
  delivered HO (honest HO data bs q) c = sel q (blen HO data) c.
Proof. exact delivered_honest. Qed.
Print Assumptions C07_delivered_honest.

(* a fault-free step (sync or fsm decoder) fed the whole honest encoding of its query, followed by any bytes,
   adds exactly the selection of the query to the delivered set *)
Theorem C07_full_step : forall (HO : hops), hash_ok HO ->
  forall (data : bytes HO) (bs : N), (blen HO data <= 2 ^ 63)%N -> (bs <= 10)%N ->
  forall q : ranges, wf_ranges q = true ->
  forall (D : N -> bool) (st : bytes HO * outboard HO) (rest : bytes HO) (fsm : bool),
  Inv HO data bs D st ->
  Inv HO data bs (fun c => D c || sel q (blen HO data) c)
      (hist_step HO st (mkOp HO q (flat HO (honest HO data bs q) ++ rest) no_faults fsm)).
Proof. exact full_step. Qed.
Print Assumptions C07_full_step.

(* from the all-zero initial state of any kind, fault-free steps (any interleaving of the sync and fsm decoders)
   each fed the honest encoding of its query followed by any bytes: if the queries select every chunk of the blob,
   the final state is the blob and the blob's created store of that kind *)
Theorem C07_download_converges : forall (HO : hops), hash_ok HO ->
  forall (data : bytes HO) (bs : N), (blen HO data <= 2 ^ 63)%N -> (bs <= 10)%N ->
  forall k, hist_kind k ->
  forall ops : list (op HO),
  Forall (fun o => wf_ranges (op_q HO o) = true /\ op_sf HO o = no_faults /\
                   exists rest, op_enc HO o = flat HO (honest HO data bs (op_q HO o)) ++ rest) ops ->
  (forall c, (c < nchunks (blen HO data))%N -> exists o, In o ops /\ sel (op_q HO o) (blen HO data) c = true) ->
  fst (fold_left (hist_step HO) ops (init_target HO data, init_ob HO data bs k)) = data /\
  created_store HO data bs (snd (fold_left (hist_step HO) ops (init_target HO data, init_ob HO data bs k))) /\
  ob_k (snd (fold_left (hist_step HO) ops (init_target HO data, init_ob HO data bs k))) = k.
Proof. exact download_converges. Qed.
Print Assumptions C07_download_converges.

(* the single query ChunkRanges::all() = [0] suffices *)
Theorem C07_download_all : forall (HO : hops), hash_ok HO ->
  forall (data : bytes HO) (bs : N), (blen HO data <= 2 ^ 63)%N -> (bs <= 10)%N ->
  forall k, hist_kind k ->
  forall (rest : bytes HO) (fsm : bool),
  fst (hist_step HO (init_target HO data, init_ob HO data bs k)
         (mkOp HO [0%N] (flat HO (honest HO data bs [0%N]) ++ rest) no_faults fsm)) = data /\
  created_store HO data bs
    (snd (hist_step HO (init_target HO data, init_ob HO data bs k)
            (mkOp HO [0%N] (flat HO (honest HO data bs [0%N]) ++ rest) no_faults fsm))) /\
  ob_k (snd (hist_step HO (init_target HO data, init_ob HO data bs k)
               (mkOp HO [0%N] (flat HO (honest HO data bs [0%N]) ++ rest) no_faults fsm))) = k.
Proof. exact download_all. Qed.
Print Assumptions C07_download_all.

(* the hypotheses of C07_download_converges are satisfiable: a blob of 3 chunks over the term-algebra hash, groups
   of 2 chunks, the queries [0, 1) (sync) and [1, oo) (fsm, one trailing byte), neither of which covers the blob *)
Theorem C07_download_nonvacuous :
  exists (HO : hops) (data : bytes HO) (bs : N) (k : ob_kind) (ops : list (op HO)),
    hash_ok HO /\ (blen HO data <= 2 ^ 63)%N /\ (bs <= 10)%N /\ hist_kind k /\
    nchunks (blen HO data) = 3%N /\ length ops = 2%nat /\
    Forall (fun o => wf_ranges (op_q HO o) = true /\ op_sf HO o = no_faults /\
                     exists rest, op_enc HO o = flat HO (honest HO data bs (op_q HO o)) ++ rest) ops /\
    (forall c, (c < nchunks (blen HO data))%N -> exists o, In o ops /\ sel (op_q HO o) (blen HO data) c = true) /\
    (forall o, In o ops -> exists c, (c < nchunks (blen HO data))%N /\ sel (op_q HO o) (blen HO data) c = false).
Proof. exact download_nonvacuous. Qed.
Print Assumptions C07_download_nonvacuous.

(* no step of a history (any stream, any sink faults, either decoder) changes the kind of the store *)
Theorem C07_hist_step_kind : forall (HO : hops), hash_ok HO ->
  forall (data : bytes HO) (bs : N), (blen HO data <= 2 ^ 63)%N -> (bs <= 10)%N ->
  forall (D : N -> bool) (st : bytes HO * outboard HO) (o : op HO),
  wf_ranges (op_q HO o) = true -> Inv HO data bs D st ->
  ob_k (snd (hist_step HO st o)) = ob_k (snd st).
Proof. exact hist_step_kind. Qed.
Print Assumptions C07_hist_step_kind.
