(* C02 (encoder side) - the validating encoders on an intact store emit the honest encoding.
   Statements only; proofs in Proofs/Enc*.v.
     enc_nodes size bs q   (Proofs/EncThm.v)  = the parent nodes of the encoder's plan
                                               pre_plan size bs 0 (truncate_ranges q size)
     stored_ok HO data ob nd     = load_sync HO ob nd = Ok (Some (true_pair HO data nd))
     stored_ok_fsm HO data ob nd = load_fsm  HO ob nd = Ok (Some (true_pair HO data nd))
   The only assumption on the hash instance is a correct byte comparison (beq_correct). *)
From BaoV Require Import Model.Fsm Spec.RangeSpec Spec.PlanSpec Spec.EncSpec Spec.HashAssm.
From BaoV Require Import Proofs.EncLoop Proofs.EncThm.

Theorem C02_enc_is_spec_sync : forall (HO : hops) (data : bytes HO) (bs : N) (q : ranges),
  wf_ranges q = true -> blen HO data <= 2 ^ 63 -> bs <= 10 ->
  forall ob : outboard HO,
  ob_tree ob = mkTree (blen HO data) bs -> ob_root ob = root_hash HO data ->
  beq_correct HO ->
  (forall nd, In nd (enc_nodes (blen HO data) bs q) -> stored_ok HO data ob nd) ->
  encode_ranges_validated HO data ob q = (Ok tt, flat HO (honest HO data bs q)).
Proof. exact c02_sync. Qed.
Print Assumptions C02_enc_is_spec_sync.

Theorem C02_enc_is_spec_fsm : forall (HO : hops) (data : bytes HO) (bs : N) (q : ranges),
  wf_ranges q = true -> blen HO data <= 2 ^ 63 -> bs <= 10 ->
  forall ob : outboard HO,
  ob_tree ob = mkTree (blen HO data) bs -> ob_root ob = root_hash HO data ->
  beq_correct HO ->
  (forall nd, In nd (enc_nodes (blen HO data) bs q) -> stored_ok_fsm HO data ob nd) ->
  encode_ranges_validated_fsm HO data ob q = (Ok tt, flat HO (honest HO data bs q)).
Proof. exact c02_fsm. Qed.
Print Assumptions C02_enc_is_spec_fsm.

(* the encoder's plan nodes are the parents of the recursive plan of the truncated query *)
Theorem C02_enc_nodes : forall size bs q,
  enc_nodes size bs q = plan_nodes (pre_plan size bs 0 (truncate_ranges q size)).
Proof. exact enc_nodes_def. Qed.
Print Assumptions C02_enc_nodes.
