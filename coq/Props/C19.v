(* C19 - wire items survive serialisation (postcard wire format).  Statements only; proofs in Proofs/. *)
From BaoV Require Import Model.Serde Proofs.SerdeProofs.

(* node ids and chunk numbers: a u64 as a varint *)
Theorem C19_postcard_u64 : forall n rest, n < 2 ^ 64 -> take_varint (varint n ++ rest) = Some (n, rest).
Proof. exact varint_roundtrip. Qed.
Print Assumptions C19_postcard_u64.

Theorem C19_postcard_parent : forall p rest, parent_ok p -> de_parent (ser_parent PARENT_HINT p ++ rest) = Some (p, rest).
Proof. intros p rest H. apply de_parent_rt; [cbv; discriminate | cbv; reflexivity | exact H]. Qed.
Print Assumptions C19_postcard_parent.

Theorem C19_postcard_leaf : forall l rest, leaf_ok l -> de_leaf (ser_leaf l ++ rest) = Some (l, rest).
Proof. exact de_leaf_rt. Qed.
Print Assumptions C19_postcard_leaf.

Theorem C19_postcard_content : forall c rest,
  match c with CParentV p => parent_ok p | CLeafV l => leaf_ok l end ->
  de_content (ser_content PARENT_HINT c ++ rest) = Some (c, rest).
Proof. exact de_content_rt. Qed.
Print Assumptions C19_postcard_content.

Theorem C19_postcard_encode_error : forall e rest, eerr_ok e -> de_eerr (ser_eerr e ++ rest) = Some (e, rest).
Proof. exact de_eerr_rt. Qed.
Print Assumptions C19_postcard_encode_error.

Theorem C19_postcard_encoded_item : forall i rest, eitem_ok i -> de_eitem (ser_eitem PARENT_HINT i ++ rest) = Some (i, rest).
Proof. exact de_eitem_rt. Qed.
Print Assumptions C19_postcard_encoded_item.

(* the pinned snapshot announced 2 elements: every Parent failed to deserialise (finding F1, repaired) *)
Theorem C19_parent_hint2_refuted : forall p rest, parent_ok p -> de_parent (ser_parent 2 p ++ rest) = None.
Proof. exact de_parent_hint2_fails. Qed.
Print Assumptions C19_parent_hint2_refuted.

(* ======================================================================================================
   Gap audit additions (Proofs/GapC19.v)
   ====================================================================================================== *)
From BaoV Require Import Proofs.GapC19.

(* ---- the other direction: whatever the postcard decoders accept (over bytes, i.e. numbers < 256) is a value in
   the range of the `_ok` predicates, consumed a prefix of the input, and survives re-serialisation ---- *)
Theorem C19_postcard_u64_sound : forall l n r, Forall (fun b => b < 256) l -> take_varint l = Some (n, r) ->
  n < 2 ^ 64 /\ exists used, l = used ++ r /\ (1 <= length used <= 10)%nat.
Proof. exact take_varint_bound. Qed.
Print Assumptions C19_postcard_u64_sound.
Theorem C19_postcard_parent_sound : forall l v r, Forall (fun b => b < 256) l -> de_parent l = Some (v, r) ->
  parent_ok v /\ (exists used, l = used ++ r) /\ de_parent (ser_parent PARENT_HINT v ++ r) = Some (v, r).
Proof. exact de_parent_sound. Qed.
Print Assumptions C19_postcard_parent_sound.
Theorem C19_postcard_leaf_sound : forall l v r, Forall (fun b => b < 256) l -> de_leaf l = Some (v, r) ->
  leaf_ok v /\ (exists used, l = used ++ r) /\ de_leaf (ser_leaf v ++ r) = Some (v, r).
Proof. exact de_leaf_sound. Qed.
Print Assumptions C19_postcard_leaf_sound.
Theorem C19_postcard_content_sound : forall l v r, Forall (fun b => b < 256) l -> de_content l = Some (v, r) ->
  match v with CParentV p => parent_ok p | CLeafV x => leaf_ok x end /\ (exists used, l = used ++ r) /\
  de_content (ser_content PARENT_HINT v ++ r) = Some (v, r).
Proof. exact de_content_sound. Qed.
Print Assumptions C19_postcard_content_sound.
Theorem C19_postcard_encode_error_sound : forall l v r, Forall (fun b => b < 256) l -> de_eerr l = Some (v, r) ->
  eerr_ok v /\ (exists used, l = used ++ r) /\ de_eerr (ser_eerr v ++ r) = Some (v, r).
Proof. exact de_eerr_sound. Qed.
Print Assumptions C19_postcard_encode_error_sound.
Theorem C19_postcard_encoded_item_sound : forall l v r, Forall (fun b => b < 256) l -> de_eitem l = Some (v, r) ->
  eitem_ok v /\ (exists used, l = used ++ r) /\ de_eitem (ser_eitem PARENT_HINT v ++ r) = Some (v, r).
Proof. exact de_eitem_sound. Qed.
Print Assumptions C19_postcard_encoded_item_sound.
(* ser (de l) = l does NOT hold: postcard accepts non-canonical varints (an observation, not a defect) *)
Theorem C19_postcard_varint_not_canonical : take_varint [128; 0] = Some (0, []) /\ varint 0 = [0].
Proof. exact varint_not_canonical. Qed.
Print Assumptions C19_postcard_varint_not_canonical.

(* ---- error cases of deserialisation ---- *)
Theorem C19_content_bad_tag : forall l v r, take_varint l = Some (v, r) -> 2 <= v -> de_content l = None.
Proof. exact de_content_bad_tag. Qed.
Print Assumptions C19_content_bad_tag.
Theorem C19_encode_error_bad_tag : forall l v r, take_varint l = Some (v, r) -> 6 <= v -> de_eerr l = None.
Proof. exact de_eerr_bad_tag. Qed.
Print Assumptions C19_encode_error_bad_tag.
Theorem C19_encoded_item_bad_tag : forall l v r, take_varint l = Some (v, r) -> 5 <= v -> de_eitem l = None.
Proof. exact de_eitem_bad_tag. Qed.
Print Assumptions C19_encoded_item_bad_tag.
(* a Parent announced with fewer than 3 elements never deserialises (generalises C19_parent_hint2_refuted) *)
Theorem C19_parent_short_seq : forall l len r, take_varint l = Some (len, r) -> len < 3 -> de_parent l = None.
Proof. exact de_parent_short_seq. Qed.
Print Assumptions C19_parent_short_seq.
Theorem C19_parent_short_hashes : forall p, p_node p < 2 ^ 64 -> (length (p_l p) + length (p_r p) < 64)%nat ->
  de_parent (ser_parent PARENT_HINT p) = None.
Proof. exact de_parent_short_hashes. Qed.
Print Assumptions C19_parent_short_hashes.
(* truncation: no strict prefix of a serialisation deserialises *)
Theorem C19_u64_truncated : forall n m, m < 2 ^ 64 -> (n < length (varint m))%nat ->
  take_varint (firstn n (varint m)) = None.
Proof. exact varint_truncated. Qed.
Print Assumptions C19_u64_truncated.
Theorem C19_parent_truncated : forall p n, parent_ok p -> (n < length (ser_parent PARENT_HINT p))%nat ->
  de_parent (firstn n (ser_parent PARENT_HINT p)) = None.
Proof. exact parent_truncated. Qed.
Print Assumptions C19_parent_truncated.
Theorem C19_leaf_truncated : forall x n, leaf_ok x -> (n < length (ser_leaf x))%nat ->
  de_leaf (firstn n (ser_leaf x)) = None.
Proof. exact leaf_truncated. Qed.
Print Assumptions C19_leaf_truncated.
Theorem C19_content_truncated : forall c n,
  match c with CParentV p => parent_ok p | CLeafV x => leaf_ok x end ->
  (n < length (ser_content PARENT_HINT c))%nat ->
  de_content (firstn n (ser_content PARENT_HINT c)) = None.
Proof. exact content_truncated. Qed.
Print Assumptions C19_content_truncated.
Theorem C19_encode_error_truncated : forall e n, eerr_ok e -> (n < length (ser_eerr e))%nat ->
  de_eerr (firstn n (ser_eerr e)) = None.
Proof. exact eerr_truncated. Qed.
Print Assumptions C19_encode_error_truncated.
Theorem C19_encoded_item_truncated : forall i n, eitem_ok i -> (n < length (ser_eitem PARENT_HINT i))%nat ->
  de_eitem (firstn n (ser_eitem PARENT_HINT i)) = None.
Proof. exact eitem_truncated. Qed.
Print Assumptions C19_encoded_item_truncated.

(* ---- the io error convention (src/lib.rs io_error_serde): serialised as the text "{kind:?}:{msg}", which comes
   back verbatim as the message of the new io error: it contains the kind and the message ---- *)
Theorem C19_io_error_text : forall kind msg rest,
  N.of_nat (length (kind ++ [58] ++ msg)) < 2 ^ 64 ->
  de_eerr (ser_eerr (VIo (kind ++ [58] ++ msg)) ++ rest) = Some (VIo (kind ++ [58] ++ msg), rest) /\
  (exists a b, kind ++ [58] ++ msg = a ++ kind ++ b) /\ (exists a b, kind ++ [58] ++ msg = a ++ msg ++ b).
Proof. exact io_error_text_roundtrip. Qed.
Print Assumptions C19_io_error_text.
Theorem C19_io_error_item_text : forall kind msg rest,
  N.of_nat (length (kind ++ [58] ++ msg)) < 2 ^ 64 ->
  de_eitem (ser_eitem PARENT_HINT (VError (VIo (kind ++ [58] ++ msg))) ++ rest)
    = Some (VError (VIo (kind ++ [58] ++ msg)), rest) /\
  (exists a b, kind ++ [58] ++ msg = a ++ kind ++ b) /\ (exists a b, kind ++ [58] ++ msg = a ++ msg ++ b).
Proof. exact io_error_item_text_roundtrip. Qed.
Print Assumptions C19_io_error_item_text.

(* ---- JSON: the texts of Model/Serde.v parse back (specification-side parsers pnum / parr / pjson_parent /
   pjson_leaf of Proofs/GapC19.v) to the value, hence determine it ---- *)
Theorem C19_json_u64 : forall n rest, n < 2 ^ 64 ->
  (match rest with d :: _ => (48 <=? d) && (d <=? 57) = false | [] => True end) ->
  pnum (jnum n ++ rest) = (n, rest).
Proof. exact jnum_roundtrip_u64. Qed.
Print Assumptions C19_json_u64.
Theorem C19_json_byte_array : forall l rest, Forall (fun b => b < 256) l ->
  parr (S (length l)) (jarr l ++ rest) = Some (l, rest).
Proof. exact jarr_roundtrip_bytes. Qed.
Print Assumptions C19_json_byte_array.
Theorem C19_json_parent : forall p rest, p_node p < 2 ^ 64 ->
  Forall (fun b => b < 256) (p_l p) -> Forall (fun b => b < 256) (p_r p) ->
  pjson_parent (json_parent p ++ rest) = Some (p, rest).
Proof. exact json_parent_roundtrip. Qed.
Print Assumptions C19_json_parent.
Theorem C19_json_leaf : forall x rest, l_off x < 2 ^ 64 -> Forall (fun b => b < 256) (l_data x) ->
  pjson_leaf (json_leaf x ++ rest) = Some (x, rest).
Proof. exact json_leaf_roundtrip. Qed.
Print Assumptions C19_json_leaf.
Theorem C19_json_parent_injective : forall p p',
  p_node p < 2 ^ 64 -> Forall (fun b => b < 256) (p_l p) -> Forall (fun b => b < 256) (p_r p) ->
  p_node p' < 2 ^ 64 -> Forall (fun b => b < 256) (p_l p') -> Forall (fun b => b < 256) (p_r p') ->
  json_parent p = json_parent p' -> p = p'.
Proof. exact json_parent_injective. Qed.
Print Assumptions C19_json_parent_injective.
Theorem C19_json_leaf_injective : forall x x',
  l_off x < 2 ^ 64 -> Forall (fun b => b < 256) (l_data x) ->
  l_off x' < 2 ^ 64 -> Forall (fun b => b < 256) (l_data x') ->
  json_leaf x = json_leaf x' -> x = x'.
Proof. exact json_leaf_injective. Qed.
Print Assumptions C19_json_leaf_injective.
