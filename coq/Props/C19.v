(* C19 - wire items survive serialisation (postcard wire format).  Statements only; proofs in Proofs/. *)
From BaoV Require Import Model.Serde Proofs.SerdeProofs.

(* node ids and chunk numbers: a u64 as a varint *)
Theorem C19_postcard_u64 : forall n rest, n < 2 ^ 64 -> take_varint (varint n ++ rest) = Some (n, rest).
Proof. exact varint_roundtrip. Qed.
Print Assumptions C19_postcard_u64.

Theorem C19_postcard_parent : forall p rest, parent_ok p -> de_parent (ser_parent PARENT_HINT p ++ rest) = Some (p, rest).
Proof. intros p rest H. apply de_parent_rt; [cbv; discriminate | cbv; reflexivity | exact H]. Qed.
Print Assumptions C19_postcard_parent.

Theorem C19_postcard_leaf : forall l rest, leaf_ok l -> de_leaf (ser_leaf l ++ rest) = Some (l, rest).
Proof. exact de_leaf_rt. Qed.
Print Assumptions C19_postcard_leaf.

Theorem C19_postcard_content : forall c rest,
  match c with CParentV p => parent_ok p | CLeafV l => leaf_ok l end ->
  de_content (ser_content PARENT_HINT c ++ rest) = Some (c, rest).
Proof. exact de_content_rt. Qed.
Print Assumptions C19_postcard_content.

Theorem C19_postcard_encode_error : forall e rest, eerr_ok e -> de_eerr (ser_eerr e ++ rest) = Some (e, rest).
Proof. exact de_eerr_rt. Qed.
Print Assumptions C19_postcard_encode_error.

Theorem C19_postcard_encoded_item : forall i rest, eitem_ok i -> de_eitem (ser_eitem PARENT_HINT i ++ rest) = Some (i, rest).
Proof. exact de_eitem_rt. Qed.
Print Assumptions C19_postcard_encoded_item.

(* the pinned snapshot announced 2 elements: every Parent failed to deserialise (finding F1, repaired) *)
Theorem C19_parent_hint2_refuted : forall p rest, parent_ok p -> de_parent (ser_parent 2 p ++ rest) = None.
Proof. exact de_parent_hint2_fails. Qed.
Print Assumptions C19_parent_hint2_refuted.
