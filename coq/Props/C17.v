(* C17 statements (rounding helpers of src/io/mod.rs); proofs in Proofs/Range*.v. *)
From BaoV Require Import Spec.RangeSpec Proofs.RangeProofs.

Theorem C17_chunks_spec : forall br,
  wf_ranges br = true ->
  wf_ranges (round_up_to_chunks br) = true /\
  forall c, mem (round_up_to_chunks br) c = true <-> exists b, mem br b = true /\ b / 1024 = c.
Proof. exact round_up_to_chunks_spec. Qed.
Print Assumptions C17_chunks_spec.

(* guard: every closed end boundary e (odd positions) satisfies e <= 2^64 - 2^bs *)
Theorem C17_groups_spec : forall r bs,
  bs <= 10 -> wf_ranges r = true ->
  (forall i e, Nat.odd i = true -> nth_error r i = Some e -> e <= 2 ^ 64 - 2 ^ bs) ->
  wf_ranges (round_up_to_chunks_groups r bs) = true /\
  forall c, mem (round_up_to_chunks_groups r bs) c = true
            <-> exists c', mem r c' = true /\ c / 2 ^ bs = c' / 2 ^ bs.
Proof. exact round_up_to_chunks_groups_spec. Qed.
Print Assumptions C17_groups_spec.

(* guard: every start boundary s (even positions) satisfies s < 2^64 - 2^bs  (STRICT: with
   s = 2^64 - 2^bs the debug build overflows in `value + (1 << shift)`, see C17_full_guard_strict) *)
Theorem C17_full_spec : forall r bs,
  bs <= 10 -> wf_ranges r = true ->
  (forall i s, Nat.even i = true -> nth_error r i = Some s -> s < 2 ^ 64 - 2 ^ bs) ->
  exists res, full_chunk_groups_dev r bs = Some res /\ full_chunk_groups_rel r bs = Some res /\
    wf_ranges res = true /\
    forall c, mem res c = true <-> (forall c', c' / 2 ^ bs = c / 2 ^ bs -> mem r c' = true).
Proof. exact full_chunk_groups_spec. Qed.
Print Assumptions C17_full_spec.

(* the release build alone is correct under the non-strict guard s <= 2^64 - 2^bs *)
Theorem C17_full_rel_spec : forall r bs,
  bs <= 10 -> wf_ranges r = true ->
  (forall i s, Nat.even i = true -> nth_error r i = Some s -> s <= 2 ^ 64 - 2 ^ bs) ->
  exists res, full_chunk_groups_rel r bs = Some res /\ wf_ranges res = true /\
    forall c, mem res c = true <-> (forall c', c' / 2 ^ bs = c / 2 ^ bs -> mem r c' = true).
Proof. exact full_chunk_groups_rel_spec. Qed.
Print Assumptions C17_full_rel_spec.

Theorem C17_full_guard_strict :
  full_chunk_groups_dev [18446744073709551600] 4 = None /\
  full_chunk_groups_rel [18446744073709551600] 4 = Some [18446744073709551600].
Proof. exact full_guard_strict. Qed.
Print Assumptions C17_full_guard_strict.

Theorem C17_groups_refuted :
  exists r bs c, wf_ranges r = true /\ bs <= 10 /\ mem r c = true /\
                 mem (round_up_to_chunks_groups r bs) c = false.
Proof. exact groups_refuted. Qed.
Print Assumptions C17_groups_refuted.

Theorem C17_groups_refuted_witness :
  round_up_to_chunks_groups [5; 18446744073709551615] 4 = [].
Proof. exact groups_refuted_empty. Qed.
Print Assumptions C17_groups_refuted_witness.

Theorem C17_full_refuted :
  exists r bs, wf_ranges r = true /\ bs <= 10 /\
    full_chunk_groups_dev r bs = None /\
    exists res c c', full_chunk_groups_rel r bs = Some res /\ mem res c = true /\
                     c' / 2 ^ bs = c / 2 ^ bs /\ mem r c' = false.
Proof. exact full_refuted. Qed.
Print Assumptions C17_full_refuted.

Theorem C17_full_refuted_witness :
  full_chunk_groups_dev [18446744073709551615] 4 = None /\
  full_chunk_groups_rel [18446744073709551615] 4 = Some [0].
Proof. exact full_refuted_values. Qed.
Print Assumptions C17_full_refuted_witness.

(* ---- monotonicity ---- *)
Theorem C17_chunks_mono : forall br1 br2,
  wf_ranges br1 = true -> wf_ranges br2 = true ->
  (forall b, mem br1 b = true -> mem br2 b = true) ->
  forall c, mem (round_up_to_chunks br1) c = true -> mem (round_up_to_chunks br2) c = true.
Proof. exact round_up_to_chunks_mono. Qed.
Print Assumptions C17_chunks_mono.

Theorem C17_groups_mono : forall r1 r2 bs,
  bs <= 10 -> wf_ranges r1 = true -> wf_ranges r2 = true ->
  (forall i e, Nat.odd i = true -> nth_error r1 i = Some e -> e <= 2 ^ 64 - 2 ^ bs) ->
  (forall i e, Nat.odd i = true -> nth_error r2 i = Some e -> e <= 2 ^ 64 - 2 ^ bs) ->
  (forall c, mem r1 c = true -> mem r2 c = true) ->
  forall c, mem (round_up_to_chunks_groups r1 bs) c = true -> mem (round_up_to_chunks_groups r2 bs) c = true.
Proof. exact round_up_to_chunks_groups_mono. Qed.
Print Assumptions C17_groups_mono.

Theorem C17_full_mono : forall r1 r2 bs res1 res2,
  bs <= 10 -> wf_ranges r1 = true -> wf_ranges r2 = true ->
  (forall i s, Nat.even i = true -> nth_error r1 i = Some s -> s < 2 ^ 64 - 2 ^ bs) ->
  (forall i s, Nat.even i = true -> nth_error r2 i = Some s -> s < 2 ^ 64 - 2 ^ bs) ->
  (forall c, mem r1 c = true -> mem r2 c = true) ->
  full_chunk_groups_dev r1 bs = Some res1 -> full_chunk_groups_dev r2 bs = Some res2 ->
  forall c, mem res1 c = true -> mem res2 c = true.
Proof. exact full_chunk_groups_mono. Qed.
Print Assumptions C17_full_mono.

(* ---- idempotence at the level of mem ---- *)
(* groups: the guard is inherited by the output, so nothing extra is assumed *)
Theorem C17_groups_idem : forall r bs,
  bs <= 10 -> wf_ranges r = true ->
  (forall i e, Nat.odd i = true -> nth_error r i = Some e -> e <= 2 ^ 64 - 2 ^ bs) ->
  forall c, mem (round_up_to_chunks_groups (round_up_to_chunks_groups r bs) bs) c
            = mem (round_up_to_chunks_groups r bs) c.
Proof. exact round_up_to_chunks_groups_idem. Qed.
Print Assumptions C17_groups_idem.

(* full: the (strict) guard must be assumed of the output as well, see C17_full_idem_guard_needed *)
Theorem C17_full_idem : forall r bs res,
  bs <= 10 -> wf_ranges r = true ->
  (forall i s, Nat.even i = true -> nth_error r i = Some s -> s < 2 ^ 64 - 2 ^ bs) ->
  full_chunk_groups_dev r bs = Some res ->
  (forall i s, Nat.even i = true -> nth_error res i = Some s -> s < 2 ^ 64 - 2 ^ bs) ->
  exists res', full_chunk_groups_dev res bs = Some res' /\ full_chunk_groups_rel res bs = Some res' /\
               forall c, mem res' c = mem res c.
Proof. exact full_chunk_groups_idem. Qed.
Print Assumptions C17_full_idem.

Theorem C17_full_idem_guard_needed :
  full_chunk_groups_dev [18446744073709551596] 4 = Some [18446744073709551600] /\
  full_chunk_groups_dev [18446744073709551600] 4 = None.
Proof. exact full_idem_guard_needed. Qed.
Print Assumptions C17_full_idem_guard_needed.

(* ======== Gap audit: explicit minimality / maximality, exact domains and tightness of the guards for every helper
   (proofs in Proofs/GapC17.v) ======== *)
From BaoV Require Import Proofs.GapC17.
Local Open Scope N_scope.


(* ---- round_up_to_chunks: cover and minimality as explicit clauses; the domain is total (no guard) ---- *)
Theorem C17_chunks_covers : forall br,
  wf_ranges br = true ->
  forall b, mem br b = true -> mem (round_up_to_chunks br) (b / 1024) = true.
Proof. exact gap_chunks_covers. Qed.
Print Assumptions C17_chunks_covers.

Theorem C17_chunks_least : forall br (P : N -> bool),
  wf_ranges br = true ->
  (forall b, mem br b = true -> P (b / 1024) = true) ->
  forall c, mem (round_up_to_chunks br) c = true -> P c = true.
Proof. exact gap_chunks_least. Qed.
Print Assumptions C17_chunks_least.

Theorem C17_chunks_covers_nonvacuous :
  exists br b, wf_ranges br = true /\ mem br b = true /\
               mem (round_up_to_chunks br) (b / 1024) = true /\ mem br (b / 1024) = false.
Proof. exact gap_chunks_covers_nonvacuous. Qed.
Print Assumptions C17_chunks_covers_nonvacuous.

Theorem C17_chunks_least_nonvacuous :
  exists br (P : N -> bool), wf_ranges br = true /\
    (forall b, mem br b = true -> P (b / 1024) = true) /\ P 0 = false /\ P 1 = true /\ P 3 = false.
Proof. exact gap_chunks_least_nonvacuous. Qed.
Print Assumptions C17_chunks_least_nonvacuous.


(* ---- round_up_to_chunks_groups under the guard (closed end boundaries <= 2^64 - 2^bs): superset, group-aligned,
   least such set; idempotent as a LIST (C17_groups_idem above is at the level of mem) ---- *)
Theorem C17_groups_superset : forall r bs,
  bs <= 10 -> wf_ranges r = true ->
  (forall i e, Nat.odd i = true -> nth_error r i = Some e -> e <= 2 ^ 64 - 2 ^ bs) ->
  forall c, mem r c = true -> mem (round_up_to_chunks_groups r bs) c = true.
Proof. exact gap_groups_superset. Qed.
Print Assumptions C17_groups_superset.

Theorem C17_groups_aligned : forall r bs,
  bs <= 10 -> wf_ranges r = true ->
  (forall i e, Nat.odd i = true -> nth_error r i = Some e -> e <= 2 ^ 64 - 2 ^ bs) ->
  forall c c', c / 2 ^ bs = c' / 2 ^ bs ->
    mem (round_up_to_chunks_groups r bs) c = mem (round_up_to_chunks_groups r bs) c'.
Proof. exact gap_groups_aligned. Qed.
Print Assumptions C17_groups_aligned.

Theorem C17_groups_least : forall r bs,
  bs <= 10 -> wf_ranges r = true ->
  (forall i e, Nat.odd i = true -> nth_error r i = Some e -> e <= 2 ^ 64 - 2 ^ bs) ->
  forall P : N -> bool,
    (forall c, mem r c = true -> P c = true) ->
    (forall c c', c / 2 ^ bs = c' / 2 ^ bs -> P c = P c') ->
    forall c, mem (round_up_to_chunks_groups r bs) c = true -> P c = true.
Proof. exact gap_groups_least. Qed.
Print Assumptions C17_groups_least.

Theorem C17_groups_idem_list : forall r bs,
  bs <= 10 -> wf_ranges r = true ->
  (forall i e, Nat.odd i = true -> nth_error r i = Some e -> e <= 2 ^ 64 - 2 ^ bs) ->
  round_up_to_chunks_groups (round_up_to_chunks_groups r bs) bs = round_up_to_chunks_groups r bs.
Proof. exact gap_groups_idem_list. Qed.
Print Assumptions C17_groups_idem_list.

Theorem C17_groups_superset_nonvacuous :
  exists r bs c, bs <= 10 /\ wf_ranges r = true /\
    (forall i e, Nat.odd i = true -> nth_error r i = Some e -> e <= 2 ^ 64 - 2 ^ bs) /\
    mem r c = true /\ round_up_to_chunks_groups r bs <> r.
Proof. exact gap_groups_superset_nonvacuous. Qed.
Print Assumptions C17_groups_superset_nonvacuous.

Theorem C17_groups_aligned_nonvacuous :
  exists r bs c c', bs <= 10 /\ wf_ranges r = true /\
    (forall i e, Nat.odd i = true -> nth_error r i = Some e -> e <= 2 ^ 64 - 2 ^ bs) /\
    c / 2 ^ bs = c' / 2 ^ bs /\ c <> c' /\ mem r c <> mem r c'.
Proof. exact gap_groups_aligned_nonvacuous. Qed.
Print Assumptions C17_groups_aligned_nonvacuous.

Theorem C17_groups_least_nonvacuous :
  exists r bs (P : N -> bool), bs <= 10 /\ wf_ranges r = true /\
    (forall i e, Nat.odd i = true -> nth_error r i = Some e -> e <= 2 ^ 64 - 2 ^ bs) /\
    (forall c, mem r c = true -> P c = true) /\
    (forall c c', c / 2 ^ bs = c' / 2 ^ bs -> P c = P c') /\
    P 0 = true /\ P 16 = false.
Proof. exact gap_groups_least_nonvacuous. Qed.
Print Assumptions C17_groups_least_nonvacuous.

Theorem C17_groups_idem_list_nonvacuous :
  exists r bs, bs <= 10 /\ wf_ranges r = true /\
    (forall i e, Nat.odd i = true -> nth_error r i = Some e -> e <= 2 ^ 64 - 2 ^ bs) /\
    round_up_to_chunks_groups r bs <> r /\ round_up_to_chunks_groups r bs <> [].
Proof. exact gap_groups_idem_list_nonvacuous. Qed.
Print Assumptions C17_groups_idem_list_nonvacuous.


(* ---- tightness of the guard of round_up_to_chunks_groups: right outside it (any closed end e with
   2^64 - 2^bs < e < 2^64, every block size 0..10, every start s) the end wraps to 0 and the whole range is lost ---- *)
Theorem C17_groups_guard_tight : forall bs s e,
  bs <= 10 -> s < e -> e < 2 ^ 64 -> 2 ^ 64 - 2 ^ bs < e ->
  round_up_to_chunks_groups [s; e] bs = [].
Proof. exact gap_groups_guard_tight. Qed.
Print Assumptions C17_groups_guard_tight.

Theorem C17_groups_guard_tight_nonvacuous :
  exists bs s e, bs <= 10 /\ s < e /\ e < 2 ^ 64 /\ 2 ^ 64 - 2 ^ bs < e /\
                 wf_ranges [s; e] = true /\ mem [s; e] s = true.
Proof. exact gap_groups_guard_tight_nonvacuous. Qed.
Print Assumptions C17_groups_guard_tight_nonvacuous.


(* for range sets without an open-ended range the guard is EXACTLY the domain on which the result is a superset *)
Theorem C17_groups_domain_closed : forall r bs,
  bs <= 10 -> wf_ranges r = true -> Nat.even (length r) = true ->
  ((forall c, mem r c = true -> mem (round_up_to_chunks_groups r bs) c = true)
   <-> (forall i e, Nat.odd i = true -> nth_error r i = Some e -> e <= 2 ^ 64 - 2 ^ bs)).
Proof. exact gap_groups_domain_closed. Qed.
Print Assumptions C17_groups_domain_closed.

Theorem C17_groups_domain_closed_nonvacuous :
  (exists r bs, bs <= 10 /\ wf_ranges r = true /\ Nat.even (length r) = true /\ r <> [] /\
     (forall i e, Nat.odd i = true -> nth_error r i = Some e -> e <= 2 ^ 64 - 2 ^ bs)) /\
  (exists r bs, bs <= 10 /\ wf_ranges r = true /\ Nat.even (length r) = true /\
     ~ (forall c, mem r c = true -> mem (round_up_to_chunks_groups r bs) c = true)).
Proof. exact gap_groups_domain_closed_nonvacuous. Qed.
Print Assumptions C17_groups_domain_closed_nonvacuous.


(* with an open-ended last range the guard is sufficient but not necessary: a violating closed range can be absorbed *)
Theorem C17_groups_guard_not_necessary :
  wf_ranges [18446744073709551613; 18446744073709551614; 18446744073709551615] = true /\
  round_up_to_chunks_groups [18446744073709551613; 18446744073709551614; 18446744073709551615] 4
    = [18446744073709551600] /\
  ~ (forall i e, Nat.odd i = true ->
       nth_error [18446744073709551613; 18446744073709551614; 18446744073709551615] i = Some e ->
       e <= 2 ^ 64 - 2 ^ 4) /\
  (forall c,
     mem (round_up_to_chunks_groups [18446744073709551613; 18446744073709551614; 18446744073709551615] 4) c = true
     <-> exists c', mem [18446744073709551613; 18446744073709551614; 18446744073709551615] c' = true /\
                    c / 2 ^ 4 = c' / 2 ^ 4).
Proof. exact gap_groups_guard_not_necessary. Qed.
Print Assumptions C17_groups_guard_not_necessary.


(* ---- full_chunk_groups: subset, group-aligned, greatest such set - debug build under the strict guard (start
   boundaries < 2^64 - 2^bs), release build under the weak guard (<=) ---- *)
Theorem C17_full_dev_subset : forall r bs res,
  bs <= 10 -> wf_ranges r = true ->
  (forall i s, Nat.even i = true -> nth_error r i = Some s -> s < 2 ^ 64 - 2 ^ bs) ->
  full_chunk_groups_dev r bs = Some res ->
  forall c, mem res c = true -> mem r c = true.
Proof. exact gap_full_dev_subset. Qed.
Print Assumptions C17_full_dev_subset.

Theorem C17_full_dev_aligned : forall r bs res,
  bs <= 10 -> wf_ranges r = true ->
  (forall i s, Nat.even i = true -> nth_error r i = Some s -> s < 2 ^ 64 - 2 ^ bs) ->
  full_chunk_groups_dev r bs = Some res ->
  forall c c', c / 2 ^ bs = c' / 2 ^ bs -> mem res c = mem res c'.
Proof. exact gap_full_dev_aligned. Qed.
Print Assumptions C17_full_dev_aligned.

Theorem C17_full_dev_greatest : forall r bs res,
  bs <= 10 -> wf_ranges r = true ->
  (forall i s, Nat.even i = true -> nth_error r i = Some s -> s < 2 ^ 64 - 2 ^ bs) ->
  full_chunk_groups_dev r bs = Some res ->
  forall P : N -> bool,
    (forall c, P c = true -> mem r c = true) ->
    (forall c c', c / 2 ^ bs = c' / 2 ^ bs -> P c = P c') ->
    forall c, P c = true -> mem res c = true.
Proof. exact gap_full_dev_greatest. Qed.
Print Assumptions C17_full_dev_greatest.

Theorem C17_full_rel_subset : forall r bs res,
  bs <= 10 -> wf_ranges r = true ->
  (forall i s, Nat.even i = true -> nth_error r i = Some s -> s <= 2 ^ 64 - 2 ^ bs) ->
  full_chunk_groups_rel r bs = Some res ->
  forall c, mem res c = true -> mem r c = true.
Proof. exact gap_full_rel_subset. Qed.
Print Assumptions C17_full_rel_subset.

Theorem C17_full_rel_aligned : forall r bs res,
  bs <= 10 -> wf_ranges r = true ->
  (forall i s, Nat.even i = true -> nth_error r i = Some s -> s <= 2 ^ 64 - 2 ^ bs) ->
  full_chunk_groups_rel r bs = Some res ->
  forall c c', c / 2 ^ bs = c' / 2 ^ bs -> mem res c = mem res c'.
Proof. exact gap_full_rel_aligned. Qed.
Print Assumptions C17_full_rel_aligned.

Theorem C17_full_rel_greatest : forall r bs res,
  bs <= 10 -> wf_ranges r = true ->
  (forall i s, Nat.even i = true -> nth_error r i = Some s -> s <= 2 ^ 64 - 2 ^ bs) ->
  full_chunk_groups_rel r bs = Some res ->
  forall P : N -> bool,
    (forall c, P c = true -> mem r c = true) ->
    (forall c c', c / 2 ^ bs = c' / 2 ^ bs -> P c = P c') ->
    forall c, P c = true -> mem res c = true.
Proof. exact gap_full_rel_greatest. Qed.
Print Assumptions C17_full_rel_greatest.

Theorem C17_full_dev_nonvacuous :
  exists r bs res c, bs <= 10 /\ wf_ranges r = true /\
    (forall i s, Nat.even i = true -> nth_error r i = Some s -> s < 2 ^ 64 - 2 ^ bs) /\
    full_chunk_groups_dev r bs = Some res /\ mem res c = true /\ res <> r /\
    exists P : N -> bool,
      (forall c, P c = true -> mem r c = true) /\
      (forall c c', c / 2 ^ bs = c' / 2 ^ bs -> P c = P c') /\ P 16 = true /\ P 0 = false.
Proof. exact gap_full_dev_nonvacuous. Qed.
Print Assumptions C17_full_dev_nonvacuous.

Theorem C17_full_rel_nonvacuous :
  exists r bs res c, bs <= 10 /\ wf_ranges r = true /\
    (forall i s, Nat.even i = true -> nth_error r i = Some s -> s <= 2 ^ 64 - 2 ^ bs) /\
    ~ (forall i s, Nat.even i = true -> nth_error r i = Some s -> s < 2 ^ 64 - 2 ^ bs) /\
    full_chunk_groups_rel r bs = Some res /\ full_chunk_groups_dev r bs = None /\
    mem res c = true /\ res <> r /\
    exists P : N -> bool,
      (forall c, P c = true -> mem r c = true) /\
      (forall c c', c / 2 ^ bs = c' / 2 ^ bs -> P c = P c') /\ P 16 = true /\ P 0 = false.
Proof. exact gap_full_rel_nonvacuous. Qed.
Print Assumptions C17_full_rel_nonvacuous.


(* ---- exact domain of the debug build: it panics (None) EXACTLY when some start boundary is >= 2^64 - 2^bs ---- *)
Theorem C17_full_dev_domain : forall r bs,
  bs <= 10 -> wf_ranges r = true ->
  (full_chunk_groups_dev r bs <> None
   <-> (forall i s, Nat.even i = true -> nth_error r i = Some s -> s < 2 ^ 64 - 2 ^ bs)).
Proof. exact gap_full_dev_domain. Qed.
Print Assumptions C17_full_dev_domain.

Theorem C17_full_dev_domain_nonvacuous :
  (exists r bs, bs <= 10 /\ wf_ranges r = true /\ full_chunk_groups_dev r bs <> None /\ r <> []) /\
  (exists r bs, bs <= 10 /\ wf_ranges r = true /\ full_chunk_groups_dev r bs = None).
Proof. exact gap_full_dev_domain_nonvacuous. Qed.
Print Assumptions C17_full_dev_domain_nonvacuous.


(* ---- tightness of the weak guard for the release build: right outside it (2^64 - 2^bs < s < 2^64) ceil wraps to 0
   and the result claims chunk 0, which is not in the set ---- *)
Theorem C17_full_rel_tight_open : forall bs s,
  bs <= 10 -> 2 ^ 64 - 2 ^ bs < s -> s < 2 ^ 64 ->
  full_chunk_groups_rel [s] bs = Some [0] /\ mem [s] 0 = false.
Proof. exact gap_full_rel_tight_open. Qed.
Print Assumptions C17_full_rel_tight_open.

Theorem C17_full_rel_tight_closed : forall bs s e,
  bs <= 10 -> 2 ^ 64 - 2 ^ bs < s -> s < e -> e < 2 ^ 64 ->
  exists res, full_chunk_groups_rel [s; e] bs = Some res /\ res = [0; 2 ^ 64 - 2 ^ bs] /\
              mem res 0 = true /\ mem [s; e] 0 = false.
Proof. exact gap_full_rel_tight_closed. Qed.
Print Assumptions C17_full_rel_tight_closed.

Theorem C17_full_rel_guard_exact : forall bs s,
  bs <= 10 -> s < 2 ^ 64 ->
  ((exists res, full_chunk_groups_rel [s] bs = Some res /\ forall c, mem res c = true -> mem [s] c = true)
   <-> s <= 2 ^ 64 - 2 ^ bs).
Proof. exact gap_full_rel_guard_exact. Qed.
Print Assumptions C17_full_rel_guard_exact.


(* for an individual range set the weak guard is sufficient but not necessary: the spurious range can be absorbed *)
Theorem C17_full_rel_guard_not_necessary :
  wf_ranges [0; 18446744073709551600; 18446744073709551606; 18446744073709551611] = true /\
  full_chunk_groups_rel [0; 18446744073709551600; 18446744073709551606; 18446744073709551611] 4
    = Some [0; 18446744073709551600] /\
  full_chunk_groups_dev [0; 18446744073709551600; 18446744073709551606; 18446744073709551611] 4 = None /\
  ~ (forall i s, Nat.even i = true ->
       nth_error [0; 18446744073709551600; 18446744073709551606; 18446744073709551611] i = Some s ->
       s <= 2 ^ 64 - 2 ^ 4) /\
  (forall c, mem [0; 18446744073709551600] c = true
             <-> (forall c', c' / 2 ^ 4 = c / 2 ^ 4 ->
                    mem [0; 18446744073709551600; 18446744073709551606; 18446744073709551611] c' = true)).
Proof. exact gap_full_rel_guard_not_necessary. Qed.
Print Assumptions C17_full_rel_guard_not_necessary.

Theorem C17_full_rel_tight_nonvacuous :
  (exists bs s, bs <= 10 /\ 2 ^ 64 - 2 ^ bs < s /\ s < 2 ^ 64) /\
  (exists bs s e, bs <= 10 /\ 2 ^ 64 - 2 ^ bs < s /\ s < e /\ e < 2 ^ 64) /\
  (exists bs s, bs <= 10 /\ s < 2 ^ 64 /\ s <= 2 ^ 64 - 2 ^ bs /\ ~ s < 2 ^ 64 - 2 ^ bs).
Proof. exact gap_full_rel_tight_nonvacuous. Qed.
Print Assumptions C17_full_rel_tight_nonvacuous.


(* ---- monotone / idempotent for the RELEASE build under the weak guard (above: debug build only); idempotence needs
   no guard on the output, and holds at the level of lists ---- *)
Theorem C17_full_rel_mono : forall r1 r2 bs res1 res2,
  bs <= 10 -> wf_ranges r1 = true -> wf_ranges r2 = true ->
  (forall i s, Nat.even i = true -> nth_error r1 i = Some s -> s <= 2 ^ 64 - 2 ^ bs) ->
  (forall i s, Nat.even i = true -> nth_error r2 i = Some s -> s <= 2 ^ 64 - 2 ^ bs) ->
  (forall c, mem r1 c = true -> mem r2 c = true) ->
  full_chunk_groups_rel r1 bs = Some res1 -> full_chunk_groups_rel r2 bs = Some res2 ->
  forall c, mem res1 c = true -> mem res2 c = true.
Proof. exact gap_full_rel_mono. Qed.
Print Assumptions C17_full_rel_mono.

Theorem C17_full_rel_idem : forall r bs res,
  bs <= 10 -> wf_ranges r = true ->
  (forall i s, Nat.even i = true -> nth_error r i = Some s -> s <= 2 ^ 64 - 2 ^ bs) ->
  full_chunk_groups_rel r bs = Some res ->
  exists res', full_chunk_groups_rel res bs = Some res' /\ forall c, mem res' c = mem res c.
Proof. exact gap_full_rel_idem. Qed.
Print Assumptions C17_full_rel_idem.

Theorem C17_full_rel_idem_list : forall r bs res,
  bs <= 10 -> wf_ranges r = true ->
  (forall i s, Nat.even i = true -> nth_error r i = Some s -> s <= 2 ^ 64 - 2 ^ bs) ->
  full_chunk_groups_rel r bs = Some res ->
  full_chunk_groups_rel res bs = Some res.
Proof. exact gap_full_rel_idem_list. Qed.
Print Assumptions C17_full_rel_idem_list.

Theorem C17_full_rel_mono_nonvacuous :
  exists r1 r2 bs res1 res2, bs <= 10 /\ wf_ranges r1 = true /\ wf_ranges r2 = true /\
    (forall i s, Nat.even i = true -> nth_error r1 i = Some s -> s <= 2 ^ 64 - 2 ^ bs) /\
    (forall i s, Nat.even i = true -> nth_error r2 i = Some s -> s <= 2 ^ 64 - 2 ^ bs) /\
    (forall c, mem r1 c = true -> mem r2 c = true) /\
    full_chunk_groups_rel r1 bs = Some res1 /\ full_chunk_groups_rel r2 bs = Some res2 /\
    res1 <> [] /\ res1 <> res2 /\
    full_chunk_groups_dev r1 bs = None /\ full_chunk_groups_dev r2 bs = None.
Proof. exact gap_full_rel_mono_nonvacuous. Qed.
Print Assumptions C17_full_rel_mono_nonvacuous.

Theorem C17_full_rel_idem_nonvacuous :
  exists r bs res, bs <= 10 /\ wf_ranges r = true /\
    (forall i s, Nat.even i = true -> nth_error r i = Some s -> s <= 2 ^ 64 - 2 ^ bs) /\
    full_chunk_groups_rel r bs = Some res /\ res <> [] /\ res <> r /\
    full_chunk_groups_dev r bs = None.
Proof. exact gap_full_rel_idem_nonvacuous. Qed.
Print Assumptions C17_full_rel_idem_nonvacuous.
