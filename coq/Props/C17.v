(* C17 statements (rounding helpers of src/io/mod.rs); proofs in Proofs/Range*.v. *)
From BaoV Require Import Spec.RangeSpec Proofs.RangeProofs.

Theorem C17_chunks_spec : forall br,
  wf_ranges br = true ->
  wf_ranges (round_up_to_chunks br) = true /\
  forall c, mem (round_up_to_chunks br) c = true <-> exists b, mem br b = true /\ b / 1024 = c.
Proof. exact round_up_to_chunks_spec. Qed.
Print Assumptions C17_chunks_spec.

(* guard: every closed end boundary e (odd positions) satisfies e <= 2^64 - 2^bs *)
Theorem C17_groups_spec : forall r bs,
  bs <= 10 -> wf_ranges r = true ->
  (forall i e, Nat.odd i = true -> nth_error r i = Some e -> e <= 2 ^ 64 - 2 ^ bs) ->
  wf_ranges (round_up_to_chunks_groups r bs) = true /\
  forall c, mem (round_up_to_chunks_groups r bs) c = true
            <-> exists c', mem r c' = true /\ c / 2 ^ bs = c' / 2 ^ bs.
Proof. exact round_up_to_chunks_groups_spec. Qed.
Print Assumptions C17_groups_spec.

(* guard: every start boundary s (even positions) satisfies s < 2^64 - 2^bs  (STRICT: with
   s = 2^64 - 2^bs the debug build overflows in `value + (1 << shift)`, see C17_full_guard_strict) *)
Theorem C17_full_spec : forall r bs,
  bs <= 10 -> wf_ranges r = true ->
  (forall i s, Nat.even i = true -> nth_error r i = Some s -> s < 2 ^ 64 - 2 ^ bs) ->
  exists res, full_chunk_groups_dev r bs = Some res /\ full_chunk_groups_rel r bs = Some res /\
    wf_ranges res = true /\
    forall c, mem res c = true <-> (forall c', c' / 2 ^ bs = c / 2 ^ bs -> mem r c' = true).
Proof. exact full_chunk_groups_spec. Qed.
Print Assumptions C17_full_spec.

(* the release build alone is correct under the non-strict guard s <= 2^64 - 2^bs *)
Theorem C17_full_rel_spec : forall r bs,
  bs <= 10 -> wf_ranges r = true ->
  (forall i s, Nat.even i = true -> nth_error r i = Some s -> s <= 2 ^ 64 - 2 ^ bs) ->
  exists res, full_chunk_groups_rel r bs = Some res /\ wf_ranges res = true /\
    forall c, mem res c = true <-> (forall c', c' / 2 ^ bs = c / 2 ^ bs -> mem r c' = true).
Proof. exact full_chunk_groups_rel_spec. Qed.
Print Assumptions C17_full_rel_spec.

Theorem C17_full_guard_strict :
  full_chunk_groups_dev [18446744073709551600] 4 = None /\
  full_chunk_groups_rel [18446744073709551600] 4 = Some [18446744073709551600].
Proof. exact full_guard_strict. Qed.
Print Assumptions C17_full_guard_strict.

Theorem C17_groups_refuted :
  exists r bs c, wf_ranges r = true /\ bs <= 10 /\ mem r c = true /\
                 mem (round_up_to_chunks_groups r bs) c = false.
Proof. exact groups_refuted. Qed.
Print Assumptions C17_groups_refuted.

Theorem C17_groups_refuted_witness :
  round_up_to_chunks_groups [5; 18446744073709551615] 4 = [].
Proof. exact groups_refuted_empty. Qed.
Print Assumptions C17_groups_refuted_witness.

Theorem C17_full_refuted :
  exists r bs, wf_ranges r = true /\ bs <= 10 /\
    full_chunk_groups_dev r bs = None /\
    exists res c c', full_chunk_groups_rel r bs = Some res /\ mem res c = true /\
                     c' / 2 ^ bs = c / 2 ^ bs /\ mem r c' = false.
Proof. exact full_refuted. Qed.
Print Assumptions C17_full_refuted.

Theorem C17_full_refuted_witness :
  full_chunk_groups_dev [18446744073709551615] 4 = None /\
  full_chunk_groups_rel [18446744073709551615] 4 = Some [0].
Proof. exact full_refuted_values. Qed.
Print Assumptions C17_full_refuted_witness.

(* ---- monotonicity ---- *)
Theorem C17_chunks_mono : forall br1 br2,
  wf_ranges br1 = true -> wf_ranges br2 = true ->
  (forall b, mem br1 b = true -> mem br2 b = true) ->
  forall c, mem (round_up_to_chunks br1) c = true -> mem (round_up_to_chunks br2) c = true.
Proof. exact round_up_to_chunks_mono. Qed.
Print Assumptions C17_chunks_mono.

Theorem C17_groups_mono : forall r1 r2 bs,
  bs <= 10 -> wf_ranges r1 = true -> wf_ranges r2 = true ->
  (forall i e, Nat.odd i = true -> nth_error r1 i = Some e -> e <= 2 ^ 64 - 2 ^ bs) ->
  (forall i e, Nat.odd i = true -> nth_error r2 i = Some e -> e <= 2 ^ 64 - 2 ^ bs) ->
  (forall c, mem r1 c = true -> mem r2 c = true) ->
  forall c, mem (round_up_to_chunks_groups r1 bs) c = true -> mem (round_up_to_chunks_groups r2 bs) c = true.
Proof. exact round_up_to_chunks_groups_mono. Qed.
Print Assumptions C17_groups_mono.

Theorem C17_full_mono : forall r1 r2 bs res1 res2,
  bs <= 10 -> wf_ranges r1 = true -> wf_ranges r2 = true ->
  (forall i s, Nat.even i = true -> nth_error r1 i = Some s -> s < 2 ^ 64 - 2 ^ bs) ->
  (forall i s, Nat.even i = true -> nth_error r2 i = Some s -> s < 2 ^ 64 - 2 ^ bs) ->
  (forall c, mem r1 c = true -> mem r2 c = true) ->
  full_chunk_groups_dev r1 bs = Some res1 -> full_chunk_groups_dev r2 bs = Some res2 ->
  forall c, mem res1 c = true -> mem res2 c = true.
Proof. exact full_chunk_groups_mono. Qed.
Print Assumptions C17_full_mono.

(* ---- idempotence at the level of mem ---- *)
(* groups: the guard is inherited by the output, so nothing extra is assumed *)
Theorem C17_groups_idem : forall r bs,
  bs <= 10 -> wf_ranges r = true ->
  (forall i e, Nat.odd i = true -> nth_error r i = Some e -> e <= 2 ^ 64 - 2 ^ bs) ->
  forall c, mem (round_up_to_chunks_groups (round_up_to_chunks_groups r bs) bs) c
            = mem (round_up_to_chunks_groups r bs) c.
Proof. exact round_up_to_chunks_groups_idem. Qed.
Print Assumptions C17_groups_idem.

(* full: the (strict) guard must be assumed of the output as well, see C17_full_idem_guard_needed *)
Theorem C17_full_idem : forall r bs res,
  bs <= 10 -> wf_ranges r = true ->
  (forall i s, Nat.even i = true -> nth_error r i = Some s -> s < 2 ^ 64 - 2 ^ bs) ->
  full_chunk_groups_dev r bs = Some res ->
  (forall i s, Nat.even i = true -> nth_error res i = Some s -> s < 2 ^ 64 - 2 ^ bs) ->
  exists res', full_chunk_groups_dev res bs = Some res' /\ full_chunk_groups_rel res bs = Some res' /\
               forall c, mem res' c = mem res c.
Proof. exact full_chunk_groups_idem. Qed.
Print Assumptions C17_full_idem.

Theorem C17_full_idem_guard_needed :
  full_chunk_groups_dev [18446744073709551596] 4 = Some [18446744073709551600] /\
  full_chunk_groups_dev [18446744073709551600] 4 = None.
Proof. exact full_idem_guard_needed. Qed.
Print Assumptions C17_full_idem_guard_needed.
