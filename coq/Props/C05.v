(* C05 - the validating encoder never emits bytes that are not a prefix of the honest encoding, whatever
   the store contains.  Statements only; proofs in Proofs/Enc*.v.
   Units of the plan (Proofs/EncMain.v): a parent item = the stored pair of its node; a leaf item = the
   stored bytes of its chunk group [c, gE c)  (gE HO data bs c = min (c + 2^bs) (nchunks size)).
     unit_ok HO data bs load data' u : the stored unit equals the blob's
        (CParent n ..: load n = Ok (Some (true_pair HO data n));
         CLeaf c sz ..: read_exact_at HO data' (to_bytes c) sz = Ok (chunk_bytes HO data c (gE c)))
     hb HO data bs q u : the honest bytes of the unit (the true pair; the honest encoding of the group)
     hbs HO data bs q l = concat (map hb l)
     is_mismatch r = (exists n, r = Err (EParentHashMismatch n)) \/ (exists c, r = Err (ELeafHashMismatch c)) *)
From BaoV Require Import Model.Fsm Spec.RangeSpec Spec.PlanSpec Spec.EncSpec Spec.HashAssm.
From BaoV Require Import Proofs.EncLoop Proofs.EncMain Proofs.EncThm.

Theorem C05_prefix : forall (HO : hops) (data : bytes HO) (bs : N) (q : ranges),
  wf_ranges q = true -> blen HO data <= 2 ^ 63 -> bs <= 10 ->
  forall ob : outboard HO,
  ob_tree ob = mkTree (blen HO data) bs -> ob_root ob = root_hash HO data ->
  forall (data' : bytes HO) (r : res enc_err unit) (out : bytes HO),
  hash_ok HO ->
  encode_ranges_validated HO data' ob q = (r, out) ->
  (exists tail, flat HO (honest HO data bs q) = out ++ tail /\
                (r = Ok tt -> tail = []) /\ (is_mismatch r -> tail <> [])) /\
  (r = Ok tt \/ is_mismatch r \/ (exists k, r = Err (EIo k)) \/ r = Panic) /\
  ((forall nd, In nd (enc_nodes (blen HO data) bs q) -> exists p, load_sync HO ob nd = Ok (Some p)) ->
     r <> Panic /\ (blen HO data' = blen HO data -> forall k, r <> Err (EIo k))).
Proof. exact c05_prefix. Qed.
Print Assumptions C05_prefix.

Theorem C05_prefix_fsm : forall (HO : hops) (data : bytes HO) (bs : N) (q : ranges),
  wf_ranges q = true -> blen HO data <= 2 ^ 63 -> bs <= 10 ->
  forall ob : outboard HO,
  ob_tree ob = mkTree (blen HO data) bs -> ob_root ob = root_hash HO data ->
  forall (data' : bytes HO) (r : res enc_err unit) (out : bytes HO),
  hash_ok HO -> q <> [] ->
  encode_ranges_validated_fsm HO data' ob q = (r, out) ->
  (exists tail, flat HO (honest HO data bs q) = out ++ tail /\
                (r = Ok tt -> tail = []) /\ (is_mismatch r -> tail <> [])) /\
  (r = Ok tt \/ is_mismatch r \/ (exists k, r = Err (EIo k)) \/ r = Panic) /\
  ((forall nd, In nd (enc_nodes (blen HO data) bs q) -> exists p, load_fsm HO ob nd = Ok (Some p)) ->
     r <> Panic /\ (blen HO data' = blen HO data -> forall k, r <> Err (EIo k))).
Proof. exact c05_prefix_fsm. Qed.
Print Assumptions C05_prefix_fsm.

(* the first unit of the plan (in plan order) that differs from the blob decides the result *)
Theorem C05_detects : forall (HO : hops) (data : bytes HO) (bs : N) (q : ranges),
  wf_ranges q = true -> blen HO data <= 2 ^ 63 -> bs <= 10 ->
  forall ob : outboard HO,
  ob_tree ob = mkTree (blen HO data) bs -> ob_root ob = root_hash HO data ->
  forall (data' : bytes HO) (P1 : list chunk) (u : chunk) (P2 : list chunk),
  hash_ok HO ->
  pre_order_chunks_iter (mkTree (blen HO data) bs) (truncate_ranges q (blen HO data)) 0 = P1 ++ u :: P2 ->
  Forall (unit_ok HO data bs (load_sync HO ob) data') P1 ->
  flat HO (honest HO data bs q) = hbs HO data bs q P1 ++ hb HO data bs q u ++ hbs HO data bs q P2 /\
  (forall n ir lf rt rs p, u = CParent n ir lf rt rs ->
     load_sync HO ob n = Ok (Some p) -> p <> true_pair HO data n ->
     encode_ranges_validated HO data' ob q = (Err (EParentHashMismatch n), hbs HO data bs q P1)) /\
  (forall c sz ir rs buf, u = CLeaf c sz ir rs ->
     read_exact_at HO data' (to_bytes c) sz = Ok buf -> buf <> chunk_bytes HO data c (gE HO data bs c) ->
     encode_ranges_validated HO data' ob q = (Err (ELeafHashMismatch c), hbs HO data bs q P1)).
Proof. exact c05_detects. Qed.
Print Assumptions C05_detects.

Theorem C05_detects_fsm : forall (HO : hops) (data : bytes HO) (bs : N) (q : ranges),
  wf_ranges q = true -> blen HO data <= 2 ^ 63 -> bs <= 10 ->
  forall ob : outboard HO,
  ob_tree ob = mkTree (blen HO data) bs -> ob_root ob = root_hash HO data ->
  forall (data' : bytes HO) (P1 : list chunk) (u : chunk) (P2 : list chunk),
  hash_ok HO ->
  pre_order_chunks_iter (mkTree (blen HO data) bs) (truncate_ranges q (blen HO data)) 0 = P1 ++ u :: P2 ->
  Forall (unit_ok HO data bs (load_fsm HO ob) data') P1 ->
  flat HO (honest HO data bs q) = hbs HO data bs q P1 ++ hb HO data bs q u ++ hbs HO data bs q P2 /\
  (forall n ir lf rt rs p, u = CParent n ir lf rt rs ->
     load_fsm HO ob n = Ok (Some p) -> p <> true_pair HO data n ->
     encode_ranges_validated_fsm HO data' ob q = (Err (EParentHashMismatch n), hbs HO data bs q P1)) /\
  (forall c sz ir rs buf, u = CLeaf c sz ir rs ->
     read_exact_at HO data' (to_bytes c) sz = Ok buf -> buf <> chunk_bytes HO data c (gE HO data bs c) ->
     encode_ranges_validated_fsm HO data' ob q = (Err (ELeafHashMismatch c), hbs HO data bs q P1)).
Proof. exact c05_detects_fsm. Qed.
Print Assumptions C05_detects_fsm.

(* stores that agree with the blob on every unit of the plan: only a correct byte comparison is assumed *)
Theorem C05_independent : forall (HO : hops) (data : bytes HO) (bs : N) (q : ranges),
  wf_ranges q = true -> blen HO data <= 2 ^ 63 -> bs <= 10 ->
  forall ob : outboard HO,
  ob_tree ob = mkTree (blen HO data) bs -> ob_root ob = root_hash HO data ->
  forall data' : bytes HO,
  beq_correct HO ->
  Forall (unit_ok HO data bs (load_sync HO ob) data')
         (pre_order_chunks_iter (mkTree (blen HO data) bs) (truncate_ranges q (blen HO data)) 0) ->
  encode_ranges_validated HO data' ob q = (Ok tt, flat HO (honest HO data bs q)) /\
  exists its, traverse_ranges_validated HO data' ob q = Some (ESize (blen HO data) :: map EItem its ++ [EDone]) /\
              concat (map (item_bytes HO) its) = flat HO (honest HO data bs q).
Proof. exact c05_independent. Qed.
Print Assumptions C05_independent.

Theorem C05_independent_fsm : forall (HO : hops) (data : bytes HO) (bs : N) (q : ranges),
  wf_ranges q = true -> blen HO data <= 2 ^ 63 -> bs <= 10 ->
  forall ob : outboard HO,
  ob_tree ob = mkTree (blen HO data) bs -> ob_root ob = root_hash HO data ->
  forall data' : bytes HO,
  beq_correct HO ->
  Forall (unit_ok HO data bs (load_fsm HO ob) data')
         (pre_order_chunks_iter (mkTree (blen HO data) bs) (truncate_ranges q (blen HO data)) 0) ->
  encode_ranges_validated_fsm HO data' ob q = (Ok tt, flat HO (honest HO data bs q)).
Proof. exact c05_independent_fsm. Qed.
Print Assumptions C05_independent_fsm.

(* ======== Final composition (proofs in Proofs/FinalEnc.v) ========
   On a store created by the crate (created_store, Props/C03.v) and the blob's own data every unit of the
   encoder's plan is intact (the premise of C05_independent / C05_independent_fsm), every parent of the plan
   is stored_ok, and both validating encoders return Ok with the honest bytes. *)
From BaoV Require Import Model.Sync Proofs.FinalStore Proofs.FinalEnc.

Theorem C05_created_store_ok : forall (HO : hops), hash_ok HO ->
  forall (data : bytes HO) (bs : N), blen HO data <= 2 ^ 63 -> bs <= 10 ->
  forall ob : outboard HO, created_store HO data bs ob ->
  forall q : ranges, wf_ranges q = true ->
  (Forall (unit_ok HO data bs (load_sync HO ob) data)
          (pre_order_chunks_iter (mkTree (blen HO data) bs) (truncate_ranges q (blen HO data)) 0) /\
   Forall (unit_ok HO data bs (load_fsm HO ob) data)
          (pre_order_chunks_iter (mkTree (blen HO data) bs) (truncate_ranges q (blen HO data)) 0)) /\
  (forall nd, In nd (enc_nodes (blen HO data) bs q) -> stored_ok HO data ob nd /\ stored_ok_fsm HO data ob nd) /\
  encode_ranges_validated HO data ob q = (Ok tt, flat HO (honest HO data bs q)) /\
  encode_ranges_validated_fsm HO data ob q = (Ok tt, flat HO (honest HO data bs q)).
Proof. exact c05_created_store_ok. Qed.
Print Assumptions C05_created_store_ok.

(* ======== Gap audit (proofs in Proofs/GapEnc.v, Proofs/GapEncStore.v) ========
   - the fsm validating encoder without the q <> [] premise of C05_prefix_fsm;
   - the item-stream encoder (traverse_ranges_validated, mixed.rs) at the strength of C05_prefix / C05_detects;
   - "stops with a hash mismatch iff some byte the query depends on differs": Ok exactly when every unit is intact;
   - "differences in parts the query does not depend on change nothing", for any two stores (no reference blob);
   - "never sends bytes that fail verification", from the receiver's side. *)
From BaoV Require Import Proofs.DecForest Proofs.E2EDecode Proofs.DecWitness Proofs.EncNonval Proofs.GapBao Proofs.GapEnc Proofs.GapEncStore.
From Coq Require Import Arith.

Theorem C05_prefix_fsm_all : forall (HO : hops) (data : bytes HO) (bs : N) (q : ranges),
  wf_ranges q = true -> blen HO data <= 2 ^ 63 -> bs <= 10 ->
  forall ob : outboard HO,
  ob_tree ob = mkTree (blen HO data) bs -> ob_root ob = root_hash HO data ->
  forall (data' : bytes HO) (r : res enc_err unit) (out : bytes HO),
  hash_ok HO ->
  encode_ranges_validated_fsm HO data' ob q = (r, out) ->
  (exists tail, flat HO (honest HO data bs q) = out ++ tail /\
                (r = Ok tt -> tail = []) /\ (is_mismatch r -> tail <> [])) /\
  (r = Ok tt \/ is_mismatch r \/ (exists k, r = Err (EIo k)) \/ r = Panic) /\
  ((forall nd, In nd (enc_nodes (blen HO data) bs q) -> exists p, load_fsm HO ob nd = Ok (Some p)) ->
     r <> Panic /\ (blen HO data' = blen HO data -> forall k, r <> Err (EIo k))).
Proof. exact c05_prefix_fsm_all. Qed.
Print Assumptions C05_prefix_fsm_all.

(* the item stream on ANY store and data file: None (the task panicked: a parent of the plan without a slot) or the
   size item, items whose bytes are a prefix of the honest encoding, and one closing item: Done exactly when all
   was sent, otherwise an Error item: a hash mismatch (then something is missing) or an io error *)
Theorem C05_prefix_mixed : forall (HO : hops) (data : bytes HO) (bs : N) (q : ranges),
  wf_ranges q = true -> blen HO data <= 2 ^ 63 -> bs <= 10 ->
  forall ob : outboard HO,
  ob_tree ob = mkTree (blen HO data) bs -> ob_root ob = root_hash HO data ->
  forall data' : bytes HO, hash_ok HO ->
  traverse_ranges_validated HO data' ob q = None \/
  exists (its : list (item HO)) (last : eitem HO) (tail : bytes HO),
    traverse_ranges_validated HO data' ob q = Some (ESize (blen HO data) :: map EItem its ++ [last]) /\
    flat HO (honest HO data bs q) = concat (map (item_bytes HO) its) ++ tail /\
    ((last = EDone /\ tail = []) \/
     (exists e, last = EError e /\
        ((is_mismatch (Err e) /\ tail <> []) \/ (exists k, e = EIo k)))).
Proof. exact c05_prefix_mixed. Qed.
Print Assumptions C05_prefix_mixed.

Theorem C05_mixed_no_panic : forall (HO : hops) (data : bytes HO) (bs : N) (q : ranges),
  wf_ranges q = true -> blen HO data <= 2 ^ 63 -> bs <= 10 ->
  forall ob : outboard HO,
  ob_tree ob = mkTree (blen HO data) bs -> ob_root ob = root_hash HO data ->
  forall data' : bytes HO, hash_ok HO ->
  (forall nd, In nd (enc_nodes (blen HO data) bs q) -> exists p, load_sync HO ob nd = Ok (Some p)) ->
  traverse_ranges_validated HO data' ob q <> None /\
  (blen HO data' = blen HO data -> forall its k,
     traverse_ranges_validated HO data' ob q <> Some (ESize (blen HO data) :: map EItem its ++ [EError (EIo k)])).
Proof. exact c05_mixed_no_panic. Qed.
Print Assumptions C05_mixed_no_panic.

(* the first unit of the plan that differs from the blob decides the closing item of the stream *)
Theorem C05_detects_mixed : forall (HO : hops) (data : bytes HO) (bs : N) (q : ranges),
  wf_ranges q = true -> blen HO data <= 2 ^ 63 -> bs <= 10 ->
  forall ob : outboard HO,
  ob_tree ob = mkTree (blen HO data) bs -> ob_root ob = root_hash HO data ->
  forall (data' : bytes HO) (P1 : list chunk) (u : chunk) (P2 : list chunk),
  hash_ok HO ->
  pre_order_chunks_iter (mkTree (blen HO data) bs) (truncate_ranges q (blen HO data)) 0 = P1 ++ u :: P2 ->
  Forall (unit_ok HO data bs (load_sync HO ob) data') P1 ->
  (forall n ir lf rt rs p, u = CParent n ir lf rt rs ->
     load_sync HO ob n = Ok (Some p) -> p <> true_pair HO data n ->
     exists its, traverse_ranges_validated HO data' ob q
                 = Some (ESize (blen HO data) :: map EItem its ++ [EError (EParentHashMismatch n)]) /\
                 concat (map (item_bytes HO) its) = hbs HO data bs q P1) /\
  (forall c sz ir rs buf, u = CLeaf c sz ir rs ->
     read_exact_at HO data' (to_bytes c) sz = Ok buf -> buf <> chunk_bytes HO data c (gE HO data bs c) ->
     exists its, traverse_ranges_validated HO data' ob q
                 = Some (ESize (blen HO data) :: map EItem its ++ [EError (ELeafHashMismatch c)]) /\
                 concat (map (item_bytes HO) its) = hbs HO data bs q P1).
Proof. exact c05_detects_mixed. Qed.
Print Assumptions C05_detects_mixed.

(* the result is Ok EXACTLY when every unit of the plan is intact (unit_ok: the stored pair of a parent of the plan is
   the blob's true pair / the stored bytes of a leaf chunk group of the plan are the blob's); when moreover every parent
   of the plan has a slot and the data file has the blob's length, any other outcome is a hash mismatch *)
Theorem C05_ok_iff_intact : forall (HO : hops), hash_ok HO ->
  forall (data : bytes HO) (bs : N) (q : ranges),
  wf_ranges q = true -> blen HO data <= 2 ^ 63 -> bs <= 10 ->
  forall ob : outboard HO,
  ob_tree ob = mkTree (blen HO data) bs -> ob_root ob = root_hash HO data ->
  forall (data' : bytes HO) (r : res enc_err unit) (out : bytes HO),
  encode_ranges_validated HO data' ob q = (r, out) ->
  (r = Ok tt <-> Forall (unit_ok HO data bs (load_sync HO ob) data')
                        (pre_order_chunks_iter (mkTree (blen HO data) bs) (truncate_ranges q (blen HO data)) 0)) /\
  ((forall nd, In nd (enc_nodes (blen HO data) bs q) -> exists p, load_sync HO ob nd = Ok (Some p)) ->
   blen HO data' = blen HO data -> r = Ok tt \/ is_mismatch r).
Proof. exact any_corruption_sync. Qed.
Print Assumptions C05_ok_iff_intact.

Theorem C05_ok_iff_intact_fsm : forall (HO : hops), hash_ok HO ->
  forall (data : bytes HO) (bs : N) (q : ranges),
  wf_ranges q = true -> blen HO data <= 2 ^ 63 -> bs <= 10 ->
  forall ob : outboard HO,
  ob_tree ob = mkTree (blen HO data) bs -> ob_root ob = root_hash HO data ->
  forall (data' : bytes HO) (r : res enc_err unit) (out : bytes HO),
  encode_ranges_validated_fsm HO data' ob q = (r, out) ->
  (r = Ok tt <-> Forall (unit_ok HO data bs (load_fsm HO ob) data')
                        (pre_order_chunks_iter (mkTree (blen HO data) bs) (truncate_ranges q (blen HO data)) 0)) /\
  ((forall nd, In nd (enc_nodes (blen HO data) bs q) -> exists p, load_fsm HO ob nd = Ok (Some p)) ->
   blen HO data' = blen HO data -> r = Ok tt \/ is_mismatch r).
Proof. exact any_corruption_fsm. Qed.
Print Assumptions C05_ok_iff_intact_fsm.

(* last clause, with no reference blob: two stores (any contents) with the same tree and root that agree on every unit
   the plan of the query reads give the same result, bytes and items; everything else in the stores is irrelevant *)
Theorem C05_same_on_units : forall (HO : hops) (d1 d2 : bytes HO) (ob1 ob2 : outboard HO) (q : ranges),
  ob_tree ob1 = ob_tree ob2 -> ob_root ob1 = ob_root ob2 ->
  let plan := pre_order_chunks_iter (ob_tree ob1) (truncate_ranges q (tsize (ob_tree ob1))) 0 in
  (forall s sz ir rs, In (CLeaf s sz ir rs) plan ->
     read_exact_at HO d1 (to_bytes s) sz = read_exact_at HO d2 (to_bytes s) sz) ->
  ((forall nd, In nd (plan_nodes plan) -> load_sync HO ob1 nd = load_sync HO ob2 nd) ->
     encode_ranges_validated HO d1 ob1 q = encode_ranges_validated HO d2 ob2 q /\
     traverse_ranges_validated HO d1 ob1 q = traverse_ranges_validated HO d2 ob2 q) /\
  ((forall nd, In nd (plan_nodes plan) -> load_fsm HO ob1 nd = load_fsm HO ob2 nd) ->
     encode_ranges_validated_fsm HO d1 ob1 q = encode_ranges_validated_fsm HO d2 ob2 q).
Proof. exact same_on_units. Qed.
Print Assumptions C05_same_on_units.

(* ---- the receiver's side ----
   item_err HO true it (Proofs/E2EDecode.v) = DParentNotFound n for it = IParent n _ _, DLeafNotFound (off / 1024) for
   it = ILeaf off _: the error of a stream that ENDS inside item `it` (never a hash mismatch).
   A decoder (sync DecodeResponseIter / fsm ResponseDecoder) set up with the true root that is fed ANY byte prefix p of the
   honest encoding yields honest items only (the first k), all accepted, and then finishes (p is everything) or reports
   item k as not found *)
Theorem C05_prefix_accepted : forall (HO : hops), hash_ok HO ->
  forall (data : bytes HO) (bs : N) (q : ranges),
  blen HO data <= 2 ^ 63 -> bs <= 10 -> wf_ranges q = true ->
  forall p tail : bytes HO,
  flat HO (honest HO data bs q) = p ++ tail ->
  exists k : nat,
    (length (flat HO (firstn k (honest HO data bs q))) <= length p)%nat /\
    (forall ys o st, dec_run HO (dec_new HO (root_hash HO data) (mkTree (blen HO data) bs) p q) = (ys, o, st) ->
       ys = firstn k (honest HO data bs q) /\
       ((tail = [] /\ k = length (honest HO data bs q) /\ o = Finished) \/
        (tail <> [] /\ exists it, nth_error (honest HO data bs q) k = Some it /\ o = Failed (item_err HO true it)))) /\
    (forall ys o st, rd_run HO (rd_new HO (root_hash HO data) q (mkTree (blen HO data) bs) p) = (ys, o, st) ->
       ys = firstn k (honest HO data bs q) /\
       ((tail = [] /\ k = length (honest HO data bs q) /\ o = Finished) \/
        (tail <> [] /\ exists it, nth_error (honest HO data bs q) k = Some it /\ o = Failed (item_err HO true it)))).
Proof. exact prefix_accepted. Qed.
Print Assumptions C05_prefix_accepted.

(* whatever the sync validating encoder has written when it returns r - on ANY store and data file - is such a prefix:
   both decoders accept item by item everything in it; r = Ok: they finish with the whole honest encoding; r a mismatch:
   they report the next honest item as not found *)
Theorem C05_receiver_sync : forall (HO : hops), hash_ok HO ->
  forall (data : bytes HO) (bs : N) (q : ranges),
  wf_ranges q = true -> blen HO data <= 2 ^ 63 -> bs <= 10 ->
  forall ob : outboard HO,
  ob_tree ob = mkTree (blen HO data) bs -> ob_root ob = root_hash HO data ->
  forall (data' : bytes HO) (r : res enc_err unit) (out : bytes HO),
  encode_ranges_validated HO data' ob q = (r, out) ->
  exists (k : nat) (tail : bytes HO),
    flat HO (honest HO data bs q) = out ++ tail /\ (r = Ok tt -> tail = []) /\ (is_mismatch r -> tail <> []) /\
    (length (flat HO (firstn k (honest HO data bs q))) <= length out)%nat /\
    (forall ys o st, dec_run HO (dec_new HO (ob_root ob) (ob_tree ob) out q) = (ys, o, st) ->
       ys = firstn k (honest HO data bs q) /\
       ((tail = [] /\ k = length (honest HO data bs q) /\ o = Finished) \/
        (tail <> [] /\ exists it, nth_error (honest HO data bs q) k = Some it /\ o = Failed (item_err HO true it)))) /\
    (forall ys o st, rd_run HO (rd_new HO (ob_root ob) q (ob_tree ob) out) = (ys, o, st) ->
       ys = firstn k (honest HO data bs q) /\
       ((tail = [] /\ k = length (honest HO data bs q) /\ o = Finished) \/
        (tail <> [] /\ exists it, nth_error (honest HO data bs q) k = Some it /\ o = Failed (item_err HO true it)))).
Proof. exact receiver_sync. Qed.
Print Assumptions C05_receiver_sync.

Theorem C05_receiver_fsm : forall (HO : hops), hash_ok HO ->
  forall (data : bytes HO) (bs : N) (q : ranges),
  wf_ranges q = true -> blen HO data <= 2 ^ 63 -> bs <= 10 ->
  forall ob : outboard HO,
  ob_tree ob = mkTree (blen HO data) bs -> ob_root ob = root_hash HO data ->
  forall (data' : bytes HO) (r : res enc_err unit) (out : bytes HO),
  encode_ranges_validated_fsm HO data' ob q = (r, out) ->
  exists (k : nat) (tail : bytes HO),
    flat HO (honest HO data bs q) = out ++ tail /\ (r = Ok tt -> tail = []) /\ (is_mismatch r -> tail <> []) /\
    (length (flat HO (firstn k (honest HO data bs q))) <= length out)%nat /\
    (forall ys o st, dec_run HO (dec_new HO (ob_root ob) (ob_tree ob) out q) = (ys, o, st) ->
       ys = firstn k (honest HO data bs q) /\
       ((tail = [] /\ k = length (honest HO data bs q) /\ o = Finished) \/
        (tail <> [] /\ exists it, nth_error (honest HO data bs q) k = Some it /\ o = Failed (item_err HO true it)))) /\
    (forall ys o st, rd_run HO (rd_new HO (ob_root ob) q (ob_tree ob) out) = (ys, o, st) ->
       ys = firstn k (honest HO data bs q) /\
       ((tail = [] /\ k = length (honest HO data bs q) /\ o = Finished) \/
        (tail <> [] /\ exists it, nth_error (honest HO data bs q) k = Some it /\ o = Failed (item_err HO true it)))).
Proof. exact receiver_fsm. Qed.
Print Assumptions C05_receiver_fsm.

(* the item stream: the bytes of the items sent before the closing item *)
Theorem C05_receiver_mixed : forall (HO : hops), hash_ok HO ->
  forall (data : bytes HO) (bs : N) (q : ranges),
  wf_ranges q = true -> blen HO data <= 2 ^ 63 -> bs <= 10 ->
  forall ob : outboard HO,
  ob_tree ob = mkTree (blen HO data) bs -> ob_root ob = root_hash HO data ->
  forall (data' : bytes HO) (its : list (item HO)) (last : eitem HO),
  traverse_ranges_validated HO data' ob q = Some (ESize (blen HO data) :: map EItem its ++ [last]) ->
  (last = EDone \/ exists e, last = EError e) /\
  let r := match last with EError e => Err e | _ => Ok tt end in
  let out := concat (map (item_bytes HO) its) in
  exists (k : nat) (tail : bytes HO),
    flat HO (honest HO data bs q) = out ++ tail /\ (r = Ok tt -> tail = []) /\ (is_mismatch r -> tail <> []) /\
    (length (flat HO (firstn k (honest HO data bs q))) <= length out)%nat /\
    (forall ys o st, dec_run HO (dec_new HO (ob_root ob) (ob_tree ob) out q) = (ys, o, st) ->
       ys = firstn k (honest HO data bs q) /\
       ((tail = [] /\ k = length (honest HO data bs q) /\ o = Finished) \/
        (tail <> [] /\ exists it, nth_error (honest HO data bs q) k = Some it /\ o = Failed (item_err HO true it)))) /\
    (forall ys o st, rd_run HO (rd_new HO (ob_root ob) q (ob_tree ob) out) = (ys, o, st) ->
       ys = firstn k (honest HO data bs q) /\
       ((tail = [] /\ k = length (honest HO data bs q) /\ o = Finished) \/
        (tail <> [] /\ exists it, nth_error (honest HO data bs q) k = Some it /\ o = Failed (item_err HO true it)))).
Proof. exact receiver_mixed. Qed.
Print Assumptions C05_receiver_mixed.

(* non-vacuity (term-algebra hash, hash_ok; 3 chunks; block size 0): nv_ob = the created store; nv_bad = the same store
   with the second stored pair zeroed: the hypotheses of the theorems above hold for it, both validating encoders send
   the root pair (64 bytes) and stop with a parent hash mismatch at node 0, the item stream closes with the same error *)
Theorem C05_gap_nonvacuous :
  hash_ok term_hops /\ blen term_hops nv_data <= 2 ^ 63 /\ nchunks (blen term_hops nv_data) = 3 /\
  created_store term_hops nv_data 0 nv_ob /\
  wf_ranges [1; 2] = true /\ wf_ranges [0] = true /\
  length (bao_slice term_hops nv_data (1 * 1024) ((2 - 1) * 1024)) = 1152%nat /\
  ob_tree nv_bad = mkTree (blen term_hops nv_data) 0 /\ ob_root nv_bad = root_hash term_hops nv_data /\
  (exists out, encode_ranges_validated term_hops nv_data nv_bad [0] = (Err (EParentHashMismatch 0), out) /\
               length out = 64%nat) /\
  (exists out, encode_ranges_validated_fsm term_hops nv_data nv_bad [0] = (Err (EParentHashMismatch 0), out) /\
               length out = 64%nat) /\
  (exists it, traverse_ranges_validated term_hops nv_data nv_bad [0]
              = Some (ESize 2049 :: map EItem [it] ++ [EError (EParentHashMismatch 0)])).
Proof. exact gap_enc_nonvacuous. Qed.
Print Assumptions C05_gap_nonvacuous.

(* more non-vacuity, same blob: (a) the hypotheses of C04_function_of_selection_created: two different queries with the
   same selection ([0,3) and [0,oo) on 3 chunks), groups_full; (b) the hypotheses of C05_same_on_units: two different
   stores (nv_ob intact, nv_bad with the pair of node 0 zeroed) that agree on every unit of the plan of the query
   "chunk 2", which never reads that pair; (c) the hypotheses of C05_detects / C05_detects_fsm / C05_detects_mixed: the
   plan of the full query on nv_bad split at its first differing unit, the parent of node 0 *)
Theorem C05_gap_nonvacuous2 :
  (wf_ranges [0; 3] = true /\ wf_ranges [0] = true /\ [0; 3] <> [0] /\
   (forall c, sel [0; 3] (blen term_hops nv_data) c = sel [0] (blen term_hops nv_data) c) /\
   groups_full 0 [0; 3] (blen term_hops nv_data)) /\
  (nv_ob <> nv_bad /\ ob_tree nv_ob = ob_tree nv_bad /\ ob_root nv_ob = ob_root nv_bad /\
   let plan := pre_order_chunks_iter (ob_tree nv_ob) (truncate_ranges [2; 3] (tsize (ob_tree nv_ob))) 0 in
   plan <> [] /\
   (forall nd, In nd (plan_nodes plan) -> load_sync term_hops nv_ob nd = load_sync term_hops nv_bad nd) /\
   (forall nd, In nd (plan_nodes plan) -> load_fsm term_hops nv_ob nd = load_fsm term_hops nv_bad nd)) /\
  (exists P1 u P2 p,
     pre_order_chunks_iter (mkTree (blen term_hops nv_data) 0) (truncate_ranges [0] (blen term_hops nv_data)) 0
       = P1 ++ u :: P2 /\
     P1 <> [] /\ Forall (unit_ok term_hops nv_data 0 (load_sync term_hops nv_bad) nv_data) P1 /\
     u = CParent 0 false true true [0] /\
     load_sync term_hops nv_bad 0 = Ok (Some p) /\ p <> true_pair term_hops nv_data 0).
Proof. exact gap_enc_nonvacuous2. Qed.
Print Assumptions C05_gap_nonvacuous2.

(* ---- collision form (Proofs/Collision.v; depends on Classical_Prop.classic and on nothing else): the idealised hypothesis
   cv_injective is dropped; under 32-byte outputs and a correct byte comparison the conclusion holds OR the hash functions
   have a collision between two distinct valid inputs ---- *)
From BaoV Require Import Proofs.Collision.
Theorem C05_ok_iff_intact_or_collision : forall (HO : hops), cv_len32 HO -> beq_correct HO ->
  (forall (data : bytes HO) (bs : N) (q : ranges),
  wf_ranges q = true -> blen HO data <= 2 ^ 63 -> bs <= 10 ->
  forall ob : outboard HO,
  ob_tree ob = mkTree (blen HO data) bs -> ob_root ob = root_hash HO data ->
  forall (data' : bytes HO) (r : res enc_err unit) (out : bytes HO),
  encode_ranges_validated HO data' ob q = (r, out) ->
  (r = Ok tt <-> Forall (unit_ok HO data bs (load_sync HO ob) data')
                        (pre_order_chunks_iter (mkTree (blen HO data) bs) (truncate_ranges q (blen HO data)) 0)) /\
  ((forall nd, In nd (enc_nodes (blen HO data) bs q) -> exists p, load_sync HO ob nd = Ok (Some p)) ->
   blen HO data' = blen HO data -> r = Ok tt \/ is_mismatch r)) \/
  collision HO.
Proof. intros HO Hl Hb. apply (or_collision HO _ Hl Hb). exact (C05_ok_iff_intact HO). Qed.
Print Assumptions C05_ok_iff_intact_or_collision.

Theorem C05_ok_iff_intact_fsm_or_collision : forall (HO : hops), cv_len32 HO -> beq_correct HO ->
  (forall (data : bytes HO) (bs : N) (q : ranges),
  wf_ranges q = true -> blen HO data <= 2 ^ 63 -> bs <= 10 ->
  forall ob : outboard HO,
  ob_tree ob = mkTree (blen HO data) bs -> ob_root ob = root_hash HO data ->
  forall (data' : bytes HO) (r : res enc_err unit) (out : bytes HO),
  encode_ranges_validated_fsm HO data' ob q = (r, out) ->
  (r = Ok tt <-> Forall (unit_ok HO data bs (load_fsm HO ob) data')
                        (pre_order_chunks_iter (mkTree (blen HO data) bs) (truncate_ranges q (blen HO data)) 0)) /\
  ((forall nd, In nd (enc_nodes (blen HO data) bs q) -> exists p, load_fsm HO ob nd = Ok (Some p)) ->
   blen HO data' = blen HO data -> r = Ok tt \/ is_mismatch r)) \/
  collision HO.
Proof. intros HO Hl Hb. apply (or_collision HO _ Hl Hb). exact (C05_ok_iff_intact_fsm HO). Qed.
Print Assumptions C05_ok_iff_intact_fsm_or_collision.

