(* C05 - the validating encoder never emits bytes that are not a prefix of the honest encoding, whatever
   the store contains.  Statements only; proofs in Proofs/Enc*.v.
   Units of the plan (Proofs/EncMain.v): a parent item = the stored pair of its node; a leaf item = the
   stored bytes of its chunk group [c, gE c)  (gE HO data bs c = min (c + 2^bs) (nchunks size)).
     unit_ok HO data bs load data' u : the stored unit equals the blob's
        (CParent n ..: load n = Ok (Some (true_pair HO data n));
         CLeaf c sz ..: read_exact_at HO data' (to_bytes c) sz = Ok (chunk_bytes HO data c (gE c)))
     hb HO data bs q u : the honest bytes of the unit (the true pair; the honest encoding of the group)
     hbs HO data bs q l = concat (map hb l)
     is_mismatch r = (exists n, r = Err (EParentHashMismatch n)) \/ (exists c, r = Err (ELeafHashMismatch c)) *)
From BaoV Require Import Model.Fsm Spec.RangeSpec Spec.PlanSpec Spec.EncSpec Spec.HashAssm.
From BaoV Require Import Proofs.EncLoop Proofs.EncMain Proofs.EncThm.

Theorem C05_prefix : forall (HO : hops) (data : bytes HO) (bs : N) (q : ranges),
  wf_ranges q = true -> blen HO data <= 2 ^ 63 -> bs <= 10 ->
  forall ob : outboard HO,
  ob_tree ob = mkTree (blen HO data) bs -> ob_root ob = root_hash HO data ->
  forall (data' : bytes HO) (r : res enc_err unit) (out : bytes HO),
  hash_ok HO ->
  encode_ranges_validated HO data' ob q = (r, out) ->
  (exists tail, flat HO (honest HO data bs q) = out ++ tail /\
                (r = Ok tt -> tail = []) /\ (is_mismatch r -> tail <> [])) /\
  (r = Ok tt \/ is_mismatch r \/ (exists k, r = Err (EIo k)) \/ r = Panic) /\
  ((forall nd, In nd (enc_nodes (blen HO data) bs q) -> exists p, load_sync HO ob nd = Ok (Some p)) ->
     r <> Panic /\ (blen HO data' = blen HO data -> forall k, r <> Err (EIo k))).
Proof. exact c05_prefix. Qed.
Print Assumptions C05_prefix.

Theorem C05_prefix_fsm : forall (HO : hops) (data : bytes HO) (bs : N) (q : ranges),
  wf_ranges q = true -> blen HO data <= 2 ^ 63 -> bs <= 10 ->
  forall ob : outboard HO,
  ob_tree ob = mkTree (blen HO data) bs -> ob_root ob = root_hash HO data ->
  forall (data' : bytes HO) (r : res enc_err unit) (out : bytes HO),
  hash_ok HO -> q <> [] ->
  encode_ranges_validated_fsm HO data' ob q = (r, out) ->
  (exists tail, flat HO (honest HO data bs q) = out ++ tail /\
                (r = Ok tt -> tail = []) /\ (is_mismatch r -> tail <> [])) /\
  (r = Ok tt \/ is_mismatch r \/ (exists k, r = Err (EIo k)) \/ r = Panic) /\
  ((forall nd, In nd (enc_nodes (blen HO data) bs q) -> exists p, load_fsm HO ob nd = Ok (Some p)) ->
     r <> Panic /\ (blen HO data' = blen HO data -> forall k, r <> Err (EIo k))).
Proof. exact c05_prefix_fsm. Qed.
Print Assumptions C05_prefix_fsm.

(* the first unit of the plan (in plan order) that differs from the blob decides the result *)
Theorem C05_detects : forall (HO : hops) (data : bytes HO) (bs : N) (q : ranges),
  wf_ranges q = true -> blen HO data <= 2 ^ 63 -> bs <= 10 ->
  forall ob : outboard HO,
  ob_tree ob = mkTree (blen HO data) bs -> ob_root ob = root_hash HO data ->
  forall (data' : bytes HO) (P1 : list chunk) (u : chunk) (P2 : list chunk),
  hash_ok HO ->
  pre_order_chunks_iter (mkTree (blen HO data) bs) (truncate_ranges q (blen HO data)) 0 = P1 ++ u :: P2 ->
  Forall (unit_ok HO data bs (load_sync HO ob) data') P1 ->
  flat HO (honest HO data bs q) = hbs HO data bs q P1 ++ hb HO data bs q u ++ hbs HO data bs q P2 /\
  (forall n ir lf rt rs p, u = CParent n ir lf rt rs ->
     load_sync HO ob n = Ok (Some p) -> p <> true_pair HO data n ->
     encode_ranges_validated HO data' ob q = (Err (EParentHashMismatch n), hbs HO data bs q P1)) /\
  (forall c sz ir rs buf, u = CLeaf c sz ir rs ->
     read_exact_at HO data' (to_bytes c) sz = Ok buf -> buf <> chunk_bytes HO data c (gE HO data bs c) ->
     encode_ranges_validated HO data' ob q = (Err (ELeafHashMismatch c), hbs HO data bs q P1)).
Proof. exact c05_detects. Qed.
Print Assumptions C05_detects.

Theorem C05_detects_fsm : forall (HO : hops) (data : bytes HO) (bs : N) (q : ranges),
  wf_ranges q = true -> blen HO data <= 2 ^ 63 -> bs <= 10 ->
  forall ob : outboard HO,
  ob_tree ob = mkTree (blen HO data) bs -> ob_root ob = root_hash HO data ->
  forall (data' : bytes HO) (P1 : list chunk) (u : chunk) (P2 : list chunk),
  hash_ok HO ->
  pre_order_chunks_iter (mkTree (blen HO data) bs) (truncate_ranges q (blen HO data)) 0 = P1 ++ u :: P2 ->
  Forall (unit_ok HO data bs (load_fsm HO ob) data') P1 ->
  flat HO (honest HO data bs q) = hbs HO data bs q P1 ++ hb HO data bs q u ++ hbs HO data bs q P2 /\
  (forall n ir lf rt rs p, u = CParent n ir lf rt rs ->
     load_fsm HO ob n = Ok (Some p) -> p <> true_pair HO data n ->
     encode_ranges_validated_fsm HO data' ob q = (Err (EParentHashMismatch n), hbs HO data bs q P1)) /\
  (forall c sz ir rs buf, u = CLeaf c sz ir rs ->
     read_exact_at HO data' (to_bytes c) sz = Ok buf -> buf <> chunk_bytes HO data c (gE HO data bs c) ->
     encode_ranges_validated_fsm HO data' ob q = (Err (ELeafHashMismatch c), hbs HO data bs q P1)).
Proof. exact c05_detects_fsm. Qed.
Print Assumptions C05_detects_fsm.

(* stores that agree with the blob on every unit of the plan: only a correct byte comparison is assumed *)
Theorem C05_independent : forall (HO : hops) (data : bytes HO) (bs : N) (q : ranges),
  wf_ranges q = true -> blen HO data <= 2 ^ 63 -> bs <= 10 ->
  forall ob : outboard HO,
  ob_tree ob = mkTree (blen HO data) bs -> ob_root ob = root_hash HO data ->
  forall data' : bytes HO,
  beq_correct HO ->
  Forall (unit_ok HO data bs (load_sync HO ob) data')
         (pre_order_chunks_iter (mkTree (blen HO data) bs) (truncate_ranges q (blen HO data)) 0) ->
  encode_ranges_validated HO data' ob q = (Ok tt, flat HO (honest HO data bs q)) /\
  exists its, traverse_ranges_validated HO data' ob q = Some (ESize (blen HO data) :: map EItem its ++ [EDone]) /\
              concat (map (item_bytes HO) its) = flat HO (honest HO data bs q).
Proof. exact c05_independent. Qed.
Print Assumptions C05_independent.

Theorem C05_independent_fsm : forall (HO : hops) (data : bytes HO) (bs : N) (q : ranges),
  wf_ranges q = true -> blen HO data <= 2 ^ 63 -> bs <= 10 ->
  forall ob : outboard HO,
  ob_tree ob = mkTree (blen HO data) bs -> ob_root ob = root_hash HO data ->
  forall data' : bytes HO,
  beq_correct HO ->
  Forall (unit_ok HO data bs (load_fsm HO ob) data')
         (pre_order_chunks_iter (mkTree (blen HO data) bs) (truncate_ranges q (blen HO data)) 0) ->
  encode_ranges_validated_fsm HO data' ob q = (Ok tt, flat HO (honest HO data bs q)).
Proof. exact c05_independent_fsm. Qed.
Print Assumptions C05_independent_fsm.

(* ======== Final composition (proofs in Proofs/FinalEnc.v) ========
   On a store created by the crate (created_store, Props/C03.v) and the blob's own data every unit of the
   encoder's plan is intact (the premise of C05_independent / C05_independent_fsm), every parent of the plan
   is stored_ok, and both validating encoders return Ok with the honest bytes. *)
From BaoV Require Import Model.Sync Proofs.FinalStore Proofs.FinalEnc.

Theorem C05_created_store_ok : forall (HO : hops), hash_ok HO ->
  forall (data : bytes HO) (bs : N), blen HO data <= 2 ^ 63 -> bs <= 10 ->
  forall ob : outboard HO, created_store HO data bs ob ->
  forall q : ranges, wf_ranges q = true ->
  (Forall (unit_ok HO data bs (load_sync HO ob) data)
          (pre_order_chunks_iter (mkTree (blen HO data) bs) (truncate_ranges q (blen HO data)) 0) /\
   Forall (unit_ok HO data bs (load_fsm HO ob) data)
          (pre_order_chunks_iter (mkTree (blen HO data) bs) (truncate_ranges q (blen HO data)) 0)) /\
  (forall nd, In nd (enc_nodes (blen HO data) bs q) -> stored_ok HO data ob nd /\ stored_ok_fsm HO data ob nd) /\
  encode_ranges_validated HO data ob q = (Ok tt, flat HO (honest HO data bs q)) /\
  encode_ranges_validated_fsm HO data ob q = (Ok tt, flat HO (honest HO data bs q)).
Proof. exact c05_created_store_ok. Qed.
Print Assumptions C05_created_store_ok.
