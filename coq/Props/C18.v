(* C18 - tree node navigation is a consistent algebra.  Statements only; proofs in Proofs/. *)
From BaoV Require Import Model.Node Spec.NodeSpec Proofs.NodeLevel Proofs.NodeBits Proofs.NodeAlgebra Proofs.NodePost Proofs.NodeRestricted.

(* level = number of trailing ones is the exponent in  x + 1 = (2k+1) * 2^level  *)
Theorem C18_level_spec : forall x : N, x + 1 = (2 * sp_index x + 1) * 2 ^ level x.
Proof. exact level_decomp. Qed.
Print Assumptions C18_level_spec.

Theorem C18_children : forall x, x < 2 ^ 62 -> 0 < level x ->
  left_child x = Some (sp_left x) /\ right_child x = Some (sp_right x) /\
  parent (sp_left x) = Some x /\ parent (sp_right x) = Some x /\
  level (sp_left x) = level x - 1 /\ level (sp_right x) = level x - 1.
Proof. exact children_spec. Qed.
Print Assumptions C18_children.

Theorem C18_leaf_no_children : forall x, level x = 0 ->
  left_child x = None /\ right_child x = None /\ is_leaf x = true.
Proof. exact leaf_no_children. Qed.
Print Assumptions C18_leaf_no_children.

Theorem C18_is_leaf : forall x, is_leaf x = (level x =? 0).
Proof. exact is_leaf_level. Qed.
Print Assumptions C18_is_leaf.

Theorem C18_parent_spec : forall x, x < 2 ^ 62 ->
  parent x = Some (sp_parent x) /\ level (sp_parent x) = level x + 1 /\
  (sp_left (sp_parent x) = x \/ sp_right (sp_parent x) = x).
Proof. exact parent_full_spec. Qed.
Print Assumptions C18_parent_spec.

Theorem C18_chunk_range : forall x, x < 2 ^ 62 -> chunk_range x = (sp_chunk_start x, sp_chunk_end x).
Proof. exact c18_chunk_range. Qed.
Print Assumptions C18_chunk_range.

Theorem C18_chunk_range_split : forall x, x < 2 ^ 62 -> 0 < level x ->
  fst (chunk_range (sp_left x)) = fst (chunk_range x) /\
  snd (chunk_range (sp_left x)) = mid x /\
  fst (chunk_range (sp_right x)) = mid x /\
  snd (chunk_range (sp_right x)) = snd (chunk_range x).
Proof. exact c18_chunk_range_split. Qed.
Print Assumptions C18_chunk_range_split.

Theorem C18_node_range : forall x, x < 2 ^ 62 ->
  node_range x = (sp_node_start x, sp_node_start x + 2 ^ (level x + 1) - 1).
Proof. exact c18_node_range. Qed.
Print Assumptions C18_node_range.

Theorem C18_count_below : forall x, x < 2 ^ 62 -> count_below x = 2 ^ (level x + 1) - 2.
Proof. exact count_below_spec. Qed.
Print Assumptions C18_count_below.

Theorem C18_next_left_ancestor : forall x, x < 2 ^ 62 -> next_left_ancestor x = sp_next_left_ancestor x.
Proof. exact c18_next_left_ancestor. Qed.
Print Assumptions C18_next_left_ancestor.

Theorem C18_right_count : forall x, right_count x = popcount (sp_index x).
Proof. exact right_count_spec. Qed.
Print Assumptions C18_right_count.

Theorem C18_post_order_offset : forall x, x < 2 ^ 62 -> post_order_offset_node x = sp_post_offset x.
Proof. exact post_order_offset_spec. Qed.
Print Assumptions C18_post_order_offset.

Theorem C18_post_order_range : forall x, x < 2 ^ 62 ->
  post_order_range x = (sp_post_offset x - (2 ^ (level x + 1) - 2), sp_post_offset x + 1).
Proof. exact post_order_range_spec. Qed.
Print Assumptions C18_post_order_range.

Theorem C18_add_block_size : forall x n, n <= 10 ->
  add_block_size x n = (if n <=? level x then Some (x / 2 ^ n) else None).
Proof. exact c18_add_block_size. Qed.
Print Assumptions C18_add_block_size.

Theorem C18_subtract_add : forall y n, n <= 10 -> (y + 1) * 2 ^ n <= 2 ^ 63 ->
  add_block_size (subtract_block_size y n) n = Some y /\
  level (subtract_block_size y n) = level y + n /\
  sp_index (subtract_block_size y n) = sp_index y.
Proof. exact c18_subtract_add. Qed.
Print Assumptions C18_subtract_add.

Theorem C18_add_subtract : forall x y n, n <= 10 -> x < 2 ^ 62 ->
  add_block_size x n = Some y -> subtract_block_size y n = x.
Proof. exact c18_add_subtract. Qed.
Print Assumptions C18_add_subtract.

Theorem C18_post_order_enum : forall (h : nat) x, (h <= 60)%nat -> x < 2 ^ (N.of_nat h + 1) - 1 ->
  nth_error (complete_post h 0) (N.to_nat (post_order_offset_node x)) = Some x.
Proof. exact post_order_enum. Qed.
Print Assumptions C18_post_order_enum.

Theorem C18_restricted_parent : forall x len p, x < 2 ^ 62 -> restricted_parent x len = Some p ->
  p < len /\ level x < level p /\ sp_node_start p <= x /\ x < sp_node_start p + 2 ^ (level p + 1) - 1.
Proof. exact restricted_parent_sound. Qed.
Print Assumptions C18_restricted_parent.

Theorem C18_right_descendant : forall x len d, x < 2 ^ 62 -> right_descendant x len = Some d ->
  d < len /\ level d < level x /\ x < d /\ d < sp_node_start x + 2 ^ (level x + 1) - 1.
Proof. exact right_descendant_sound. Qed.
Print Assumptions C18_right_descendant.

Theorem C18_restricted_parent_none : forall x len, x < 2 ^ 62 -> restricted_parent x len = None ->
  forall p, (level x < level p /\ level p <= 62 /\
             sp_node_start p <= x < sp_node_start p + 2 ^ (level p + 1) - 1) -> len <= p.
Proof. exact restricted_parent_none. Qed.
Print Assumptions C18_restricted_parent_none.
