(* C18 - tree node navigation is a consistent algebra.  Statements only; proofs in Proofs/. *)
From BaoV Require Import Model.Node Spec.NodeSpec Proofs.NodeLevel.

(* level = number of trailing ones is the exponent in  x + 1 = (2k+1) * 2^level  *)
Theorem C18_level_spec : forall x : N, x + 1 = (2 * sp_index x + 1) * 2 ^ level x.
Proof. exact level_decomp. Qed.
Print Assumptions C18_level_spec.
