(* C18 - tree node navigation is a consistent algebra.  Statements only; proofs in Proofs/. *)
From BaoV Require Import Model.Node Spec.NodeSpec Proofs.NodeLevel Proofs.NodeBits Proofs.NodeAlgebra Proofs.NodePost Proofs.NodeRestricted.

(* level = number of trailing ones is the exponent in  x + 1 = (2k+1) * 2^level  *)
Theorem C18_level_spec : forall x : N, x + 1 = (2 * sp_index x + 1) * 2 ^ level x.
Proof. exact level_decomp. Qed.
Print Assumptions C18_level_spec.

Theorem C18_children : forall x, x < 2 ^ 62 -> 0 < level x ->
  left_child x = Some (sp_left x) /\ right_child x = Some (sp_right x) /\
  parent (sp_left x) = Some x /\ parent (sp_right x) = Some x /\
  level (sp_left x) = level x - 1 /\ level (sp_right x) = level x - 1.
Proof. exact children_spec. Qed.
Print Assumptions C18_children.

Theorem C18_leaf_no_children : forall x, level x = 0 ->
  left_child x = None /\ right_child x = None /\ is_leaf x = true.
Proof. exact leaf_no_children. Qed.
Print Assumptions C18_leaf_no_children.

Theorem C18_is_leaf : forall x, is_leaf x = (level x =? 0).
Proof. exact is_leaf_level. Qed.
Print Assumptions C18_is_leaf.

Theorem C18_parent_spec : forall x, x < 2 ^ 62 ->
  parent x = Some (sp_parent x) /\ level (sp_parent x) = level x + 1 /\
  (sp_left (sp_parent x) = x \/ sp_right (sp_parent x) = x).
Proof. exact parent_full_spec. Qed.
Print Assumptions C18_parent_spec.

Theorem C18_chunk_range : forall x, x < 2 ^ 62 -> chunk_range x = (sp_chunk_start x, sp_chunk_end x).
Proof. exact c18_chunk_range. Qed.
Print Assumptions C18_chunk_range.

Theorem C18_chunk_range_split : forall x, x < 2 ^ 62 -> 0 < level x ->
  fst (chunk_range (sp_left x)) = fst (chunk_range x) /\
  snd (chunk_range (sp_left x)) = mid x /\
  fst (chunk_range (sp_right x)) = mid x /\
  snd (chunk_range (sp_right x)) = snd (chunk_range x).
Proof. exact c18_chunk_range_split. Qed.
Print Assumptions C18_chunk_range_split.

Theorem C18_node_range : forall x, x < 2 ^ 62 ->
  node_range x = (sp_node_start x, sp_node_start x + 2 ^ (level x + 1) - 1).
Proof. exact c18_node_range. Qed.
Print Assumptions C18_node_range.

Theorem C18_count_below : forall x, x < 2 ^ 62 -> count_below x = 2 ^ (level x + 1) - 2.
Proof. exact count_below_spec. Qed.
Print Assumptions C18_count_below.

Theorem C18_next_left_ancestor : forall x, x < 2 ^ 62 -> next_left_ancestor x = sp_next_left_ancestor x.
Proof. exact c18_next_left_ancestor. Qed.
Print Assumptions C18_next_left_ancestor.

Theorem C18_right_count : forall x, right_count x = popcount (sp_index x).
Proof. exact right_count_spec. Qed.
Print Assumptions C18_right_count.

Theorem C18_post_order_offset : forall x, x < 2 ^ 62 -> post_order_offset_node x = sp_post_offset x.
Proof. exact post_order_offset_spec. Qed.
Print Assumptions C18_post_order_offset.

Theorem C18_post_order_range : forall x, x < 2 ^ 62 ->
  post_order_range x = (sp_post_offset x - (2 ^ (level x + 1) - 2), sp_post_offset x + 1).
Proof. exact post_order_range_spec. Qed.
Print Assumptions C18_post_order_range.

Theorem C18_add_block_size : forall x n, n <= 10 ->
  add_block_size x n = (if n <=? level x then Some (x / 2 ^ n) else None).
Proof. exact c18_add_block_size. Qed.
Print Assumptions C18_add_block_size.

Theorem C18_subtract_add : forall y n, n <= 10 -> (y + 1) * 2 ^ n <= 2 ^ 63 ->
  add_block_size (subtract_block_size y n) n = Some y /\
  level (subtract_block_size y n) = level y + n /\
  sp_index (subtract_block_size y n) = sp_index y.
Proof. exact c18_subtract_add. Qed.
Print Assumptions C18_subtract_add.

Theorem C18_add_subtract : forall x y n, n <= 10 -> x < 2 ^ 62 ->
  add_block_size x n = Some y -> subtract_block_size y n = x.
Proof. exact c18_add_subtract. Qed.
Print Assumptions C18_add_subtract.

Theorem C18_post_order_enum : forall (h : nat) x, (h <= 60)%nat -> x < 2 ^ (N.of_nat h + 1) - 1 ->
  nth_error (complete_post h 0) (N.to_nat (post_order_offset_node x)) = Some x.
Proof. exact post_order_enum. Qed.
Print Assumptions C18_post_order_enum.

Theorem C18_restricted_parent : forall x len p, x < 2 ^ 62 -> restricted_parent x len = Some p ->
  p < len /\ level x < level p /\ sp_node_start p <= x /\ x < sp_node_start p + 2 ^ (level p + 1) - 1.
Proof. exact restricted_parent_sound. Qed.
Print Assumptions C18_restricted_parent.

Theorem C18_right_descendant : forall x len d, x < 2 ^ 62 -> right_descendant x len = Some d ->
  d < len /\ level d < level x /\ x < d /\ d < sp_node_start x + 2 ^ (level x + 1) - 1.
Proof. exact right_descendant_sound. Qed.
Print Assumptions C18_right_descendant.

Theorem C18_restricted_parent_none : forall x len, x < 2 ^ 62 -> restricted_parent x len = None ->
  forall p, (level x < level p /\ level p <= 62 /\
             sp_node_start p <= x < sp_node_start p + 2 ^ (level p + 1) - 1) -> len <= p.
Proof. exact restricted_parent_none. Qed.
Print Assumptions C18_restricted_parent_none.

(* ===== gap audit: "for every node id" =====
   The theorems above are stated for x < 2^62, n <= 10, h <= 60.  Below the same conclusions
   with no bound at all where the model statement holds over all of N, for every u64 id whose
   successor does not overflow (x < 2^64 - 1) where word-level wrapping is involved, with
   explicit refutations at the first id / shift where a statement stops holding, and the
   agreement of node_range / count_below / post_order_range with the explicit enumeration
   complete_post (level x) (sp_node_start x) of the complete subtree below x.
   Proofs in Proofs/GapNode.v. *)
From BaoV Require Import Proofs.GapNode.

(* -- levels of u64 ids -- *)
Theorem C18_gap_level_u64 : forall x, x < 2 ^ 64 - 1 -> level x <= 63.
Proof. exact gap_level_u64. Qed.
Print Assumptions C18_gap_level_u64.

Theorem C18_gap_level63_unique : forall x, x < 2 ^ 64 -> level x = 63 -> x = 2 ^ 63 - 1.
Proof. exact gap_level63_unique. Qed.
Print Assumptions C18_gap_level63_unique.

(* -- children -- *)
Theorem C18_gap_children : forall x, 0 < level x -> level x <> 64 ->
  left_child x = Some (sp_left x) /\ right_child x = Some (sp_right x) /\
  parent (sp_left x) = Some x /\ parent (sp_right x) = Some x /\
  level (sp_left x) = level x - 1 /\ level (sp_right x) = level x - 1.
Proof. exact gap_children. Qed.
Print Assumptions C18_gap_children.

Theorem C18_gap_children_u64 : forall x, x < 2 ^ 64 - 1 -> 0 < level x ->
  left_child x = Some (sp_left x) /\ right_child x = Some (sp_right x) /\
  parent (sp_left x) = Some x /\ parent (sp_right x) = Some x /\
  level (sp_left x) = level x - 1 /\ level (sp_right x) = level x - 1.
Proof. exact gap_children_u64. Qed.
Print Assumptions C18_gap_children_u64.

Theorem C18_gap_children_fit_u64 : forall x, x < 2 ^ 64 - 1 -> 0 < level x ->
  sp_left x < x /\ x < sp_right x /\ sp_right x < 2 ^ 64 - 1.
Proof. exact gap_children_fit_u64. Qed.
Print Assumptions C18_gap_children_fit_u64.

(* refuted at level 64, i.e. at u64::MAX (not a usable id: self.0 + 1 overflows in the Rust) *)
Theorem C18_gap_children_top_refuted : exists x,
  x = 2 ^ 64 - 1 /\ 0 < level x /\ level x = 64 /\
  parent (sp_left x) = None /\ parent (sp_right x) = None.
Proof. exact gap_children_top_refuted. Qed.
Print Assumptions C18_gap_children_top_refuted.

Theorem C18_gap_children_nonvacuous :
  2 ^ 63 - 1 < 2 ^ 64 - 1 /\ 0 < level (2 ^ 63 - 1) /\ level (2 ^ 63 - 1) <> 64 /\
  left_child (2 ^ 63 - 1) = Some (2 ^ 62 - 1) /\ right_child (2 ^ 63 - 1) = Some (2 ^ 63 + 2 ^ 62 - 1).
Proof. exact gap_children_nonvacuous. Qed.
Print Assumptions C18_gap_children_nonvacuous.

(* -- parent -- *)
Theorem C18_gap_parent : forall x, level x <> 63 ->
  parent x = Some (sp_parent x) /\ level (sp_parent x) = level x + 1 /\
  (sp_left (sp_parent x) = x \/ sp_right (sp_parent x) = x).
Proof. exact gap_parent. Qed.
Print Assumptions C18_gap_parent.

Theorem C18_gap_parent_top : forall x, level x = 63 -> parent x = None.
Proof. exact gap_parent_top. Qed.
Print Assumptions C18_gap_parent_top.

Theorem C18_gap_parent_u64 : forall x, x < 2 ^ 64 - 1 -> x <> 2 ^ 63 - 1 ->
  parent x = Some (sp_parent x) /\ level (sp_parent x) = level x + 1 /\
  (sp_left (sp_parent x) = x \/ sp_right (sp_parent x) = x) /\
  sp_parent x < 2 ^ 64 - 1.
Proof. exact gap_parent_u64. Qed.
Print Assumptions C18_gap_parent_u64.

Theorem C18_gap_parent_nonvacuous :
  2 ^ 64 - 2 < 2 ^ 64 - 1 /\ 2 ^ 64 - 2 <> 2 ^ 63 - 1 /\ level (2 ^ 64 - 2) <> 63 /\
  parent (2 ^ 64 - 2) = Some (2 ^ 64 - 3) /\
  level (2 ^ 63 - 1) = 63 /\ parent (2 ^ 63 - 1) = None.
Proof. exact gap_parent_nonvacuous. Qed.
Print Assumptions C18_gap_parent_nonvacuous.

(* -- ranges, next left ancestor: no bound -- *)
Theorem C18_gap_chunk_range : forall x, chunk_range x = (sp_chunk_start x, sp_chunk_end x).
Proof. exact gap_chunk_range. Qed.
Print Assumptions C18_gap_chunk_range.

Theorem C18_gap_chunk_range_split : forall x, 0 < level x ->
  fst (chunk_range (sp_left x)) = fst (chunk_range x) /\
  snd (chunk_range (sp_left x)) = mid x /\
  fst (chunk_range (sp_right x)) = mid x /\
  snd (chunk_range (sp_right x)) = snd (chunk_range x).
Proof. exact gap_chunk_range_split. Qed.
Print Assumptions C18_gap_chunk_range_split.

Theorem C18_gap_chunk_range_split_nonvacuous :
  0 < level (2 ^ 63 - 1) /\ chunk_range (2 ^ 63 - 1) = (0, 2 ^ 64) /\
  chunk_range (sp_left (2 ^ 63 - 1)) = (0, 2 ^ 63) /\
  chunk_range (sp_right (2 ^ 63 - 1)) = (2 ^ 63, 2 ^ 64).
Proof. exact gap_chunk_range_split_nonvacuous. Qed.
Print Assumptions C18_gap_chunk_range_split_nonvacuous.

Theorem C18_gap_node_range : forall x,
  node_range x = (sp_node_start x, sp_node_start x + 2 ^ (level x + 1) - 1).
Proof. exact gap_node_range. Qed.
Print Assumptions C18_gap_node_range.

Theorem C18_gap_next_left_ancestor : forall x, next_left_ancestor x = sp_next_left_ancestor x.
Proof. exact gap_next_left_ancestor. Qed.
Print Assumptions C18_gap_next_left_ancestor.

(* which range results of a u64 id are u64 values (the model computes in N) *)
Theorem C18_gap_ranges_fit_u64 : forall x, x < 2 ^ 64 - 1 ->
  snd (node_range x) < 2 ^ 64 /\ snd (chunk_range x) <= 2 ^ 64.
Proof. exact gap_ranges_fit_u64. Qed.
Print Assumptions C18_gap_ranges_fit_u64.

Theorem C18_gap_chunk_range_edge :
  2 ^ 64 - 2 < 2 ^ 64 - 1 /\ snd (chunk_range (2 ^ 64 - 2)) = 2 ^ 64 /\
  snd (chunk_range (2 ^ 63 - 1)) = 2 ^ 64.
Proof. exact gap_chunk_range_edge. Qed.
Print Assumptions C18_gap_chunk_range_edge.

(* -- counts below, post-order offsets and ranges: every id with x + 1 < 2^64 -- *)
Theorem C18_gap_count_below : forall x, x < 2 ^ 64 - 1 -> count_below x = 2 ^ (level x + 1) - 2.
Proof. exact gap_count_below. Qed.
Print Assumptions C18_gap_count_below.

Theorem C18_gap_post_order_offset : forall x, x < 2 ^ 64 - 1 ->
  post_order_offset_node x = sp_post_offset x.
Proof. exact gap_post_order_offset. Qed.
Print Assumptions C18_gap_post_order_offset.

Theorem C18_gap_post_order_range : forall x, x < 2 ^ 64 - 1 ->
  post_order_range x = (sp_post_offset x - (2 ^ (level x + 1) - 2), sp_post_offset x + 1).
Proof. exact gap_post_order_range. Qed.
Print Assumptions C18_gap_post_order_range.

(* refuted at u64::MAX: neg64 wraps in the model; self.0 + 1 overflows in the Rust *)
Theorem C18_gap_count_below_top_refuted : exists x,
  x = 2 ^ 64 - 1 /\ count_below x = 0 /\ 2 ^ (level x + 1) - 2 = 2 ^ 65 - 2 /\
  post_order_offset_node x = 0 /\ sp_post_offset x = 2 ^ 65 - 2 /\
  post_order_range x = (0, 1).
Proof. exact gap_count_below_top_refuted. Qed.
Print Assumptions C18_gap_count_below_top_refuted.

(* -- block size conversion: every shift -- *)
Theorem C18_gap_add_block_size : forall x n,
  add_block_size x n = (if n <=? level x then Some (x / 2 ^ n) else None).
Proof. exact gap_add_block_size. Qed.
Print Assumptions C18_gap_add_block_size.

Theorem C18_gap_subtract_add : forall y n, (y + 1) * 2 ^ n <= 2 ^ 64 ->
  add_block_size (subtract_block_size y n) n = Some y /\
  level (subtract_block_size y n) = level y + n /\
  sp_index (subtract_block_size y n) = sp_index y.
Proof. exact gap_subtract_add. Qed.
Print Assumptions C18_gap_subtract_add.

Theorem C18_gap_add_subtract : forall x y n, x < 2 ^ 64 ->
  add_block_size x n = Some y -> subtract_block_size y n = x.
Proof. exact gap_add_subtract. Qed.
Print Assumptions C18_gap_add_subtract.

(* the bound of C18_gap_subtract_add is exact *)
Theorem C18_gap_subtract_add_tight : forall y n, 2 ^ 64 < (y + 1) * 2 ^ n ->
  add_block_size (subtract_block_size y n) n <> Some y.
Proof. exact gap_subtract_add_tight. Qed.
Print Assumptions C18_gap_subtract_add_tight.

Theorem C18_gap_subtract_add_refuted : exists y n,
  y = 2 ^ 63 /\ n = 1 /\ y < 2 ^ 64 /\ subtract_block_size y n = 1 /\
  add_block_size (subtract_block_size y n) n = Some 0 /\
  add_block_size (subtract_block_size y n) n <> Some y.
Proof. exact gap_subtract_add_refuted. Qed.
Print Assumptions C18_gap_subtract_add_refuted.

Theorem C18_gap_add_subtract_nonvacuous :
  2 ^ 64 - 1 < 2 ^ 64 /\ add_block_size (2 ^ 64 - 1) 64 = Some 0 /\
  2 ^ 63 - 1 < 2 ^ 64 /\ add_block_size (2 ^ 63 - 1) 10 = Some (2 ^ 53 - 1) /\
  subtract_block_size (2 ^ 53 - 1) 10 = 2 ^ 63 - 1.
Proof. exact gap_add_subtract_nonvacuous. Qed.
Print Assumptions C18_gap_add_subtract_nonvacuous.

Theorem C18_gap_subtract_add_nonvacuous :
  (2 ^ 54 - 1 + 1) * 2 ^ 10 <= 2 ^ 64 /\ subtract_block_size (2 ^ 54 - 1) 10 = 2 ^ 64 - 1 /\
  (2 ^ 53 - 1 + 1) * 2 ^ 10 <= 2 ^ 64 /\ subtract_block_size (2 ^ 53 - 1) 10 = 2 ^ 63 - 1.
Proof. exact gap_subtract_add_nonvacuous. Qed.
Print Assumptions C18_gap_subtract_add_nonvacuous.

(* -- post-order offsets against the explicit enumeration: all heights up to 63 -- *)
Theorem C18_gap_post_order_enum : forall (h : nat) x, (h <= 63)%nat -> x < 2 ^ (N.of_nat h + 1) - 1 ->
  nth_error (complete_post h 0) (N.to_nat (post_order_offset_node x)) = Some x.
Proof. exact gap_post_order_enum. Qed.
Print Assumptions C18_gap_post_order_enum.

(* -- restricted_parent / right_descendant: no bound on x -- *)
Theorem C18_gap_restricted_parent : forall x len p, restricted_parent x len = Some p ->
  p < len /\ level x < level p /\ sp_node_start p <= x /\ x < sp_node_start p + 2 ^ (level p + 1) - 1.
Proof. exact gap_restricted_parent. Qed.
Print Assumptions C18_gap_restricted_parent.

Theorem C18_gap_right_descendant : forall x len d, right_descendant x len = Some d ->
  d < len /\ level d < level x /\ x < d /\ d < sp_node_start x + 2 ^ (level x + 1) - 1.
Proof. exact gap_right_descendant. Qed.
Print Assumptions C18_gap_right_descendant.

Theorem C18_gap_restricted_parent_none : forall x len, restricted_parent x len = None ->
  forall p, (level x < level p /\ level p <= 63 /\
             sp_node_start p <= x < sp_node_start p + 2 ^ (level p + 1) - 1) -> len <= p.
Proof. exact gap_restricted_parent_none. Qed.
Print Assumptions C18_gap_restricted_parent_none.

Theorem C18_gap_restricted_parent_nonvacuous :
  restricted_parent (2 ^ 64 - 2) (2 ^ 64 - 1) = Some (2 ^ 64 - 3) /\
  restricted_parent (2 ^ 64 - 2) (2 ^ 63) = Some (2 ^ 63 - 1) /\
  right_descendant (2 ^ 63 - 1) (2 ^ 63 + 5) = Some (2 ^ 63 + 3).
Proof. exact gap_restricted_parent_nonvacuous. Qed.
Print Assumptions C18_gap_restricted_parent_nonvacuous.

Theorem C18_gap_restricted_parent_none_nonvacuous :
  restricted_parent (2 ^ 64 - 2) 1 = None /\
  level (2 ^ 64 - 2) < level (2 ^ 63 - 1) /\ level (2 ^ 63 - 1) <= 63 /\
  sp_node_start (2 ^ 63 - 1) <= 2 ^ 64 - 2 /\
  2 ^ 64 - 2 < sp_node_start (2 ^ 63 - 1) + 2 ^ (level (2 ^ 63 - 1) + 1) - 1.
Proof. exact gap_restricted_parent_none_nonvacuous. Qed.
Print Assumptions C18_gap_restricted_parent_none_nonvacuous.

(* -- agreement with the explicit enumeration of the complete subtree below x -- *)
(* the enumeration follows the child relation *)
Theorem C18_gap_subtree_enum_leaf : forall x, level x = 0 ->
  complete_post (N.to_nat (level x)) (sp_node_start x) = [x].
Proof. exact gap_subtree_enum_leaf. Qed.
Print Assumptions C18_gap_subtree_enum_leaf.

Theorem C18_gap_subtree_enum_root : forall x, 0 < level x ->
  sp_node_start (sp_left x) = sp_node_start x /\
  sp_node_start (sp_right x) = mid x /\
  complete_post (N.to_nat (level x)) (sp_node_start x) =
    complete_post (N.to_nat (level (sp_left x))) (sp_node_start (sp_left x)) ++
    complete_post (N.to_nat (level (sp_right x))) (sp_node_start (sp_right x)) ++ [x].
Proof. exact gap_subtree_enum_root. Qed.
Print Assumptions C18_gap_subtree_enum_root.

Theorem C18_gap_subtree_enum_last : forall x, exists l,
  complete_post (N.to_nat (level x)) (sp_node_start x) = l ++ [x].
Proof. exact gap_subtree_enum_last. Qed.
Print Assumptions C18_gap_subtree_enum_last.

(* node_range is exactly the set of ids listed, each listed once *)
Theorem C18_gap_node_range_enum : forall x y,
  In y (complete_post (N.to_nat (level x)) (sp_node_start x)) <->
  fst (node_range x) <= y < snd (node_range x).
Proof. exact gap_node_range_enum. Qed.
Print Assumptions C18_gap_node_range_enum.

Theorem C18_gap_subtree_enum_NoDup : forall x,
  NoDup (complete_post (N.to_nat (level x)) (sp_node_start x)).
Proof. exact gap_subtree_enum_NoDup. Qed.
Print Assumptions C18_gap_subtree_enum_NoDup.

Theorem C18_gap_count_below_enum : forall x, x < 2 ^ 64 - 1 ->
  N.of_nat (length (complete_post (N.to_nat (level x)) (sp_node_start x))) = count_below x + 1.
Proof. exact gap_count_below_enum. Qed.
Print Assumptions C18_gap_count_below_enum.

(* the subtree enumeration is a contiguous segment of the enumeration of any complete tree
   containing the node, and post_order_range cuts out exactly that segment *)
Theorem C18_gap_subtree_enum_segment : forall (h : nat) x, x < 2 ^ (N.of_nat h + 1) - 1 ->
  exists pre suf,
    complete_post h 0 = pre ++ complete_post (N.to_nat (level x)) (sp_node_start x) ++ suf /\
    N.of_nat (length pre) = sp_post_offset x - (2 ^ (level x + 1) - 2).
Proof. exact gap_subtree_enum_segment. Qed.
Print Assumptions C18_gap_subtree_enum_segment.

Theorem C18_gap_post_order_range_enum : forall (h : nat) x, (h <= 63)%nat -> x < 2 ^ (N.of_nat h + 1) - 1 ->
  firstn (N.to_nat (snd (post_order_range x) - fst (post_order_range x)))
         (skipn (N.to_nat (fst (post_order_range x))) (complete_post h 0)) =
  complete_post (N.to_nat (level x)) (sp_node_start x).
Proof. exact gap_post_order_range_enum. Qed.
Print Assumptions C18_gap_post_order_range_enum.

Theorem C18_gap_post_order_range_enum_nonvacuous :
  (3 <= 63)%nat /\ 9 < 2 ^ (N.of_nat 3 + 1) - 1 /\ post_order_range 9 = (7, 10) /\
  complete_post 3 0 = [0; 2; 1; 4; 6; 5; 3; 8; 10; 9; 12; 14; 13; 11; 7] /\
  complete_post (N.to_nat (level 9)) (sp_node_start 9) = [8; 10; 9].
Proof. exact gap_post_order_range_enum_nonvacuous. Qed.
Print Assumptions C18_gap_post_order_range_enum_nonvacuous.
