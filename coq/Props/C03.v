(* C03 - outboard creation computes the BLAKE3 root and the specified hash pairs.
   Statements only; proofs in Proofs/Ob*.v. *)
From BaoV Require Import Model.Sync Model.Fsm Spec.EncSpec Spec.PlanSpec Spec.HashAssm
  Proofs.ObBase Proofs.ObLoop Proofs.ObCreate Proofs.ObSize Proofs.ObLayoutC.

(* the recursion over chunk intervals and the recursion over byte lists agree *)
Theorem C03_cv_is_hash_subtree : forall (HO : hops) (data : bytes HO) (a b : N) (is_root : bool),
  b <= blob_chunks HO data -> blen HO data <= 2 ^ 63 ->
  cv HO data a b is_root = hash_subtree HO a (chunk_bytes HO data a b) is_root.
Proof. exact cv_hash_subtree_inside. Qed.
Print Assumptions C03_cv_is_hash_subtree.

Theorem C03_root_is_blake3_tree : forall (HO : hops) (data : bytes HO),
  blen HO data <= 2 ^ 63 -> root_hash HO data = hash_subtree HO 0 data true.
Proof. exact root_is_blake3_tree. Qed.
Print Assumptions C03_root_is_blake3_tree.

Theorem C03_post_order_writer : forall (HO : hops) (data : bytes HO) (bs : N),
  blen HO data <= 2 ^ 63 ->
  post_order_chunks_iter (mkTree (blen HO data) bs) = post_plan (blen HO data) bs ->
  outboard_post_order HO (mkTree (blen HO data) bs) data
    = (Ok (root_hash HO data), spec_outboard HO true data bs, []) /\
  outboard_post_order_fsm HO (mkTree (blen HO data) bs) data
    = (Ok (root_hash HO data), spec_outboard HO true data bs, []).
Proof. exact c03_post_order_writer. Qed.
Print Assumptions C03_post_order_writer.

(* saves = (node, true_pair data node) for the parents of the plan, in order; save_all folds save *)
Theorem C03_outboard_impl : forall (HO : hops) (data : bytes HO) (bs : N) (ob0 : outboard HO),
  blen HO data <= 2 ^ 63 ->
  post_order_chunks_iter (mkTree (blen HO data) bs) = post_plan (blen HO data) bs ->
  let t := mkTree (blen HO data) bs in
  match save_all HO ob0 (saves HO data (post_plan (blen HO data) bs)) with
  | Ok ob' => outboard_impl HO t data ob0 = (Ok (root_hash HO data), ob', []) /\
              outboard_impl_fsm HO t data ob0 = (Ok (root_hash HO data), ob', [])
  | Err k => fst (fst (outboard_impl HO t data ob0)) = Err k /\
             fst (fst (outboard_impl_fsm HO t data ob0)) = Err k
  | Panic => fst (fst (outboard_impl HO t data ob0)) = Panic /\
             fst (fst (outboard_impl_fsm HO t data ob0)) = Panic
  end.
Proof. exact c03_outboard_impl. Qed.
Print Assumptions C03_outboard_impl.

Theorem C03_root_all_entry_points : forall (HO : hops) (data : bytes HO) (bs : N),
  blen HO data <= 2 ^ 63 ->
  post_order_chunks_iter (mkTree (blen HO data) bs) = post_plan (blen HO data) bs ->
  let size := blen HO data in
  let t := mkTree size bs in
  let good (k : ob_kind) (r : res io_kind (outboard HO)) :=
    exists ob, r = Ok ob /\ ob_root ob = root_hash HO data /\ ob_k ob = k /\ ob_tree ob = t in
  (forall k, k = PreIO \/ k = PostIO -> good k (create_sized HO k data size bs)) /\
  (forall k, k = PreIO \/ k = PostIO -> good k (create_sized_fsm HO k data size bs)) /\
  (forall ob0 : outboard HO, ob_k ob0 = PreIO \/ ob_k ob0 = PostIO -> ob_tree ob0 = t ->
     good (ob_k ob0) (init_from HO ob0 data) /\ good (ob_k ob0) (init_from_fsm HO ob0 data)) /\
  ((forall nd, In nd (plan_parents (post_plan size bs)) ->
      exists o, pre_order_offset t nd = Some o /\ o < sp_blocks size bs - 1) ->
   good PreMem (pre_mem_create HO data bs)) /\
  post_mem_create HO data bs = Ok (mkOb PostMem (root_hash HO data) t (spec_outboard HO true data bs)).
Proof. exact c03_root_all_entry_points. Qed.
Print Assumptions C03_root_all_entry_points.

Theorem C03_size : forall (HO : hops), cv_len32 HO ->
  forall (data : bytes HO) (bs : N) (post : bool), blen HO data <= 2 ^ 63 ->
  blen HO (spec_outboard HO post data bs) = (sp_blocks (blen HO data) bs - 1) * 64.
Proof. exact spec_outboard_size. Qed.
Print Assumptions C03_size.

(* byte layout of the io-backed outboards (needs 32-byte chaining values: slots are 64 bytes) *)
Theorem C03_layout_post : forall (HO : hops), cv_len32 HO ->
  forall (data : bytes HO) (bs : N), blen HO data <= 2 ^ 63 ->
  let size := blen HO data in
  let t := mkTree size bs in
  post_order_chunks_iter t = post_plan size bs ->
  map (fun nd => option_map po_value (post_order_offset t nd))
      (filter (sp_persisted size bs) (sp_post_nodes size bs))
    = map (fun i => Some (N.of_nat i)) (seq 0 (N.to_nat (sp_blocks size bs - 1))) ->
  create_sized HO PostIO data size bs = Ok (mkOb PostIO (root_hash HO data) t (spec_outboard HO true data bs)) /\
  create_sized_fsm HO PostIO data size bs = Ok (mkOb PostIO (root_hash HO data) t (spec_outboard HO true data bs)).
Proof. exact layout_post. Qed.
Print Assumptions C03_layout_post.

Theorem C03_layout_pre : forall (HO : hops), cv_len32 HO ->
  forall (data : bytes HO) (bs : N), blen HO data <= 2 ^ 63 ->
  let size := blen HO data in
  let t := mkTree size bs in
  post_order_chunks_iter t = post_plan size bs ->
  map (fun nd => pre_order_offset t nd)
      (filter (sp_persisted size bs) (sp_pre_nodes size bs))
    = map (fun i => Some (N.of_nat i)) (seq 0 (N.to_nat (sp_blocks size bs - 1))) ->
  create_sized HO PreIO data size bs = Ok (mkOb PreIO (root_hash HO data) t (spec_outboard HO false data bs)) /\
  create_sized_fsm HO PreIO data size bs = Ok (mkOb PreIO (root_hash HO data) t (spec_outboard HO false data bs)).
Proof. exact layout_pre. Qed.
Print Assumptions C03_layout_pre.

(* ======== End-to-end composition (proofs in Proofs/E2EOutboard.v) ========
   The theorems above with their interface hypotheses discharged: the plan hypothesis by C15_post_plan
   (Proofs/Compose.v), the offset hypotheses by C12_post_offsets / C12_pre_offsets. *)
From BaoV Require Import Spec.NodeSpec Proofs.E2EOutboard.

(* the parents of the post-order plan are exactly the stored nodes of the Shape, in post order *)
Theorem C03_plan_parents_are_stored : forall (HO : hops) (data : bytes HO) (bs : N),
  blen HO data <= 2 ^ 63 ->
  plan_parents (post_plan (blen HO data) bs)
    = filter (sp_persisted (blen HO data) bs) (sp_post_nodes (blen HO data) bs).
Proof. exact post_plan_parents. Qed.
Print Assumptions C03_plan_parents_are_stored.

Theorem C03_post_order_writer_e2e : forall (HO : hops) (data : bytes HO) (bs : N),
  blen HO data <= 2 ^ 63 -> bs <= 10 ->
  outboard_post_order HO (mkTree (blen HO data) bs) data
    = (Ok (root_hash HO data), spec_outboard HO true data bs, []) /\
  outboard_post_order_fsm HO (mkTree (blen HO data) bs) data
    = (Ok (root_hash HO data), spec_outboard HO true data bs, []).
Proof. exact e2e_post_order_writer. Qed.
Print Assumptions C03_post_order_writer_e2e.

Theorem C03_outboard_impl_e2e : forall (HO : hops) (data : bytes HO) (bs : N),
  blen HO data <= 2 ^ 63 -> bs <= 10 ->
  forall ob0 : outboard HO,
  match save_all HO ob0 (saves HO data (post_plan (blen HO data) bs)) with
  | Ok ob' => outboard_impl HO (mkTree (blen HO data) bs) data ob0 = (Ok (root_hash HO data), ob', []) /\
              outboard_impl_fsm HO (mkTree (blen HO data) bs) data ob0 = (Ok (root_hash HO data), ob', [])
  | Err k => fst (fst (outboard_impl HO (mkTree (blen HO data) bs) data ob0)) = Err k /\
             fst (fst (outboard_impl_fsm HO (mkTree (blen HO data) bs) data ob0)) = Err k
  | Panic => fst (fst (outboard_impl HO (mkTree (blen HO data) bs) data ob0)) = Panic /\
             fst (fst (outboard_impl_fsm HO (mkTree (blen HO data) bs) data ob0)) = Panic
  end.
Proof. exact e2e_outboard_impl. Qed.
Print Assumptions C03_outboard_impl_e2e.

(* every entry point computes the BLAKE3 root; PreOrderMemOutboard::create included, unconditionally *)
Theorem C03_root_all_entry_points_e2e : forall (HO : hops) (data : bytes HO) (bs : N),
  blen HO data <= 2 ^ 63 -> bs <= 10 ->
  let good (k : ob_kind) (r : res io_kind (outboard HO)) :=
    exists ob, r = Ok ob /\ ob_root ob = root_hash HO data /\ ob_k ob = k /\
               ob_tree ob = mkTree (blen HO data) bs in
  (forall k, k = PreIO \/ k = PostIO -> good k (create_sized HO k data (blen HO data) bs)) /\
  (forall k, k = PreIO \/ k = PostIO -> good k (create_sized_fsm HO k data (blen HO data) bs)) /\
  (forall ob0 : outboard HO, ob_k ob0 = PreIO \/ ob_k ob0 = PostIO -> ob_tree ob0 = mkTree (blen HO data) bs ->
     good (ob_k ob0) (init_from HO ob0 data) /\ good (ob_k ob0) (init_from_fsm HO ob0 data)) /\
  good PreMem (pre_mem_create HO data bs) /\
  post_mem_create HO data bs
    = Ok (mkOb PostMem (root_hash HO data) (mkTree (blen HO data) bs) (spec_outboard HO true data bs)).
Proof. exact e2e_root_all_entry_points. Qed.
Print Assumptions C03_root_all_entry_points_e2e.

(* every parent the creation loop saves has a slot of the pre-order outboard *)
Theorem C03_pre_slots : forall (HO : hops) (data : bytes HO) (bs : N),
  blen HO data <= 2 ^ 63 -> bs <= 10 ->
  forall nd, In nd (plan_parents (post_plan (blen HO data) bs)) ->
  exists o, pre_order_offset (mkTree (blen HO data) bs) nd = Some o /\ o < sp_blocks (blen HO data) bs - 1.
Proof. exact e2e_pre_slots. Qed.
Print Assumptions C03_pre_slots.

Theorem C03_layout_post_e2e : forall (HO : hops) (data : bytes HO) (bs : N),
  blen HO data <= 2 ^ 63 -> bs <= 10 -> cv_len32 HO ->
  create_sized HO PostIO data (blen HO data) bs
    = Ok (mkOb PostIO (root_hash HO data) (mkTree (blen HO data) bs) (spec_outboard HO true data bs)) /\
  create_sized_fsm HO PostIO data (blen HO data) bs
    = Ok (mkOb PostIO (root_hash HO data) (mkTree (blen HO data) bs) (spec_outboard HO true data bs)).
Proof. exact e2e_layout_post. Qed.
Print Assumptions C03_layout_post_e2e.

Theorem C03_layout_pre_e2e : forall (HO : hops) (data : bytes HO) (bs : N),
  blen HO data <= 2 ^ 63 -> bs <= 10 -> cv_len32 HO ->
  create_sized HO PreIO data (blen HO data) bs
    = Ok (mkOb PreIO (root_hash HO data) (mkTree (blen HO data) bs) (spec_outboard HO false data bs)) /\
  create_sized_fsm HO PreIO data (blen HO data) bs
    = Ok (mkOb PreIO (root_hash HO data) (mkTree (blen HO data) bs) (spec_outboard HO false data bs)).
Proof. exact e2e_layout_pre. Qed.
Print Assumptions C03_layout_pre_e2e.

(* ======== Final composition (proofs in Proofs/FinalStore.v): a store created by the crate is intact ========
   spec_outboard HO post data bs is the concatenation, by slot, of the blob's true pairs of the persisted
   nodes of the Shape; the i-th persisted node (pre / post order) has slot i (C12_pre_offsets /
   C12_post_offsets); pairs are 64 bytes (cv_len32). *)
From BaoV Require Import Proofs.FinalStore.

(* PreOrderMemOutboard::create produces exactly the specified pre-order outboard (the C03 e2e theorems
   above only gave its root, kind and tree) *)
Theorem C03_pre_mem_create_e2e : forall (HO : hops), cv_len32 HO ->
  forall (data : bytes HO) (bs : N), blen HO data <= 2 ^ 63 -> bs <= 10 ->
  pre_mem_create HO data bs
  = Ok (mkOb PreMem (root_hash HO data) (mkTree (blen HO data) bs) (spec_outboard HO false data bs)).
Proof. exact c03_pre_mem_create. Qed.
Print Assumptions C03_pre_mem_create_e2e.

(* every creation entry point returns the store (kind, root hash, tree, specified outboard bytes) *)
Theorem C03_created_entry_points : forall (HO : hops), cv_len32 HO ->
  forall (data : bytes HO) (bs : N), blen HO data <= 2 ^ 63 -> bs <= 10 ->
  (create_sized HO PreIO data (blen HO data) bs
     = Ok (mkOb PreIO (root_hash HO data) (mkTree (blen HO data) bs) (spec_outboard HO false data bs)) /\
   create_sized_fsm HO PreIO data (blen HO data) bs
     = Ok (mkOb PreIO (root_hash HO data) (mkTree (blen HO data) bs) (spec_outboard HO false data bs))) /\
  (create_sized HO PostIO data (blen HO data) bs
     = Ok (mkOb PostIO (root_hash HO data) (mkTree (blen HO data) bs) (spec_outboard HO true data bs)) /\
   create_sized_fsm HO PostIO data (blen HO data) bs
     = Ok (mkOb PostIO (root_hash HO data) (mkTree (blen HO data) bs) (spec_outboard HO true data bs))) /\
  pre_mem_create HO data bs
     = Ok (mkOb PreMem (root_hash HO data) (mkTree (blen HO data) bs) (spec_outboard HO false data bs)) /\
  post_mem_create HO data bs
     = Ok (mkOb PostMem (root_hash HO data) (mkTree (blen HO data) bs) (spec_outboard HO true data bs)).
Proof. exact c03_created_entry_points. Qed.
Print Assumptions C03_created_entry_points.

(* a store of any of the four kinds that holds the specified outboard of the blob (in particular every
   store returned by an entry point above) is intact: every persisted node of the Shape loads the
   blob's true pair, the other listed nodes have no slot; sync and fsm loaders alike *)
Theorem C03_created_store_loads : forall (HO : hops), cv_len32 HO ->
  forall (data : bytes HO) (bs : N), blen HO data <= 2 ^ 63 -> bs <= 10 ->
  forall ob : outboard HO,
  (ob_k ob = PreIO \/ ob_k ob = PostIO \/ ob_k ob = PreMem \/ ob_k ob = PostMem) ->
  ob_tree ob = mkTree (blen HO data) bs ->
  ob_data ob = spec_outboard HO (match ob_k ob with PostIO | PostMem => true | _ => false end) data bs ->
  forall nd, In nd (sp_pre_nodes (blen HO data) bs) ->
  (sp_persisted (blen HO data) bs nd = true ->
     load_sync HO ob nd = Ok (Some (true_pair HO data nd)) /\ load_fsm HO ob nd = Ok (Some (true_pair HO data nd))) /\
  (sp_persisted (blen HO data) bs nd = false ->
     load_sync HO ob nd = Ok None /\ load_fsm HO ob nd = Ok None).
Proof. exact c03_created_store_loads. Qed.
Print Assumptions C03_created_store_loads.

(* the two predicates used by the final theorems of Props/C02.v, C05.v, C06.v, C08.v:
     created_by HO data bs ob    : ob is the result (Ok ob) of one of the six creation entry points
     created_store HO data bs ob : kind, tree, root hash and bytes of ob are those of the blob's store *)
Theorem C03_created_by_def : forall (HO : hops) (data : bytes HO) (bs : N) (ob : outboard HO),
  created_by HO data bs ob <->
  (create_sized HO PreIO data (blen HO data) bs = Ok ob \/
   create_sized_fsm HO PreIO data (blen HO data) bs = Ok ob \/
   create_sized HO PostIO data (blen HO data) bs = Ok ob \/
   create_sized_fsm HO PostIO data (blen HO data) bs = Ok ob \/
   pre_mem_create HO data bs = Ok ob \/
   post_mem_create HO data bs = Ok ob).
Proof. intros. reflexivity. Qed.
Print Assumptions C03_created_by_def.

Theorem C03_created_store_def : forall (HO : hops) (data : bytes HO) (bs : N) (ob : outboard HO),
  created_store HO data bs ob <->
  (ob_k ob = PreIO \/ ob_k ob = PostIO \/ ob_k ob = PreMem \/ ob_k ob = PostMem) /\
  ob_tree ob = mkTree (blen HO data) bs /\
  ob_root ob = root_hash HO data /\
  ob_data ob = spec_outboard HO (match ob_k ob with PostIO | PostMem => true | _ => false end) data bs.
Proof. exact created_store_def. Qed.
Print Assumptions C03_created_store_def.

Theorem C03_created_by_store : forall (HO : hops), cv_len32 HO ->
  forall (data : bytes HO) (bs : N), blen HO data <= 2 ^ 63 -> bs <= 10 ->
  forall ob : outboard HO, created_by HO data bs ob -> created_store HO data bs ob.
Proof. exact c03_created_by_store. Qed.
Print Assumptions C03_created_by_store.

Theorem C03_created_store_intact : forall (HO : hops), cv_len32 HO ->
  forall (data : bytes HO) (bs : N), blen HO data <= 2 ^ 63 -> bs <= 10 ->
  forall ob : outboard HO, created_store HO data bs ob ->
  forall nd, In nd (sp_pre_nodes (blen HO data) bs) ->
  (sp_persisted (blen HO data) bs nd = true ->
     load_sync HO ob nd = Ok (Some (true_pair HO data nd)) /\ load_fsm HO ob nd = Ok (Some (true_pair HO data nd))) /\
  (sp_persisted (blen HO data) bs nd = false ->
     load_sync HO ob nd = Ok None /\ load_fsm HO ob nd = Ok None).
Proof. exact c03_created_store_loads'. Qed.
Print Assumptions C03_created_store_intact.

(* CreateOutboard::init_from (sync and fsm) on ANY pre-sized store of the four kinds - whatever bytes it holds,
   e.g. a partially filled or corrupted one of a decode history - rewrites it into the blob's store *)
Theorem C03_init_from_sized : forall (HO : hops), cv_len32 HO ->
  forall (data : bytes HO) (bs : N), blen HO data <= 2 ^ 63 -> bs <= 10 ->
  forall ob0 : outboard HO,
  (ob_k ob0 = PreIO \/ ob_k ob0 = PostIO \/ ob_k ob0 = PreMem \/ ob_k ob0 = PostMem) ->
  ob_tree ob0 = mkTree (blen HO data) bs ->
  blen HO (ob_data ob0) = (sp_blocks (blen HO data) bs - 1) * 64 ->
  exists ob, init_from HO ob0 data = Ok ob /\ init_from_fsm HO ob0 data = Ok ob /\
             ob_k ob = ob_k ob0 /\ created_store HO data bs ob.
Proof. exact c03_init_from_sized. Qed.
Print Assumptions C03_init_from_sized.

(* ======== Gap audit for C12 (last sentence), composed with C03; proofs in Proofs/GapCopyCreated.v ========
   These two theorems belong to C12 but cannot be stated in Props/C12.v: they use Proofs/FinalStore.v, which depends
   through Proofs/HistOb.v on Props/C12.v.  The general theorems (any source content) are C12_gap_copy_sync /
   C12_gap_copy_fsm / C12_gap_flip_flip in Props/C12.v. *)
From BaoV Require Import Model.Sync Model.Fsm Spec.EncSpec Spec.NodeSpec Spec.HashAssm
  Proofs.HistOb Proofs.FinalStore Proofs.GapCopyCreated.

(* copying (sync or fsm) a store created by the crate for a blob - any of the four kinds - into an empty file, a
   zeroed buffer or any not-longer store of either order gives exactly the store the crate creates for that blob
   in the target's order: "converting or copying loses and invents nothing", byte for byte *)
Theorem C12_gap_copy_created : forall (HO : hops), cv_len32 HO ->
  forall (data : bytes HO) (bs : N) (from to : outboard HO), blen HO data <= 2 ^ 63 -> bs <= 10 ->
  created_store HO data bs from ->
  (ob_k to = PreIO \/ ob_k to = PostIO \/ ob_k to = PreMem \/ ob_k to = PostMem) ->
  ob_tree to = mkTree (blen HO data) bs ->
  blen HO (ob_data to) <= (sp_blocks (blen HO data) bs - 1) * 64 ->
  ((ob_k to = PreMem \/ ob_k to = PostMem) -> blen HO (ob_data to) = (sp_blocks (blen HO data) bs - 1) * 64) ->
  ob_root to = root_hash HO data ->
  exists to', copy HO from to = Ok to' /\ copy_fsm HO from to = Ok to' /\
    ob_k to' = ob_k to /\ created_store HO data bs to'.
Proof. exact gap_copy_created. Qed.
Print Assumptions C12_gap_copy_created.

(* PostOrderMemOutboard::create(..).flip() is PreOrderMemOutboard::create(..) and back
   (the two stores are the results of post_mem_create / pre_mem_create: C03_created_entry_points) *)
Theorem C12_gap_flip_created : forall (HO : hops), cv_len32 HO ->
  forall (data : bytes HO) (bs : N), blen HO data <= 2 ^ 63 -> bs <= 10 ->
  flip HO (mkOb PostMem (root_hash HO data) (mkTree (blen HO data) bs) (spec_outboard HO true data bs))
    = Ok (mkOb PreMem (root_hash HO data) (mkTree (blen HO data) bs) (spec_outboard HO false data bs)) /\
  flip HO (mkOb PreMem (root_hash HO data) (mkTree (blen HO data) bs) (spec_outboard HO false data bs))
    = Ok (mkOb PostMem (root_hash HO data) (mkTree (blen HO data) bs) (spec_outboard HO true data bs)).
Proof. exact gap_flip_created. Qed.
Print Assumptions C12_gap_flip_created.

(* ======== Gap audit (proofs in Proofs/GapBao.v, Proofs/GapStores.v) ========
   - the outboard bytes written out explicitly: the blob's true pairs of the persisted nodes, in pre / post order;
   - the last clause of the property: at block size 0 the pre-order outboard is bao's outboard (length prefix excluded).
     The bao crate is outside the model; bao's outboard FORMAT is written down from the bao specification:
       bao_outboard HO data = the parent nodes of the tree over the chunks of 1024 bytes of the content, in pre-order,
       each node being cv(left) ++ cv(right); the tree over n > 1 chunks has a left subtree over the largest power of
       two of chunks strictly below n (next_pow2 n / 2) and a right subtree over the rest (no chunks: that is the
       combined encoding, see bao_slice in Props/C04.v);
   - all creation entry points agree with each other (root, tree, bytes per ordering, every load). *)
From BaoV Require Import Proofs.HistOb Proofs.GapBao Proofs.GapStores.
From Coq Require Import Permutation.

Theorem C03_bao_outboard_def : forall (HO : hops) (data : bytes HO),
  bao_outboard HO data = bao_ob_rec HO 64 data 0 (nchunks (blen HO data)).
Proof. exact bao_outboard_def. Qed.
Print Assumptions C03_bao_outboard_def.

Theorem C03_bao_ob_rec_step : forall (HO : hops) (f : nat) (data : bytes HO) (a b : N),
  bao_ob_rec HO (S f) data a b =
    if b - a <=? 1 then []
    else cv HO data a (a + next_pow2 (b - a) / 2) false ++ cv HO data (a + next_pow2 (b - a) / 2) b false
         ++ bao_ob_rec HO f data a (a + next_pow2 (b - a) / 2) ++ bao_ob_rec HO f data (a + next_pow2 (b - a) / 2) b.
Proof. exact bao_ob_rec_eq. Qed.
Print Assumptions C03_bao_ob_rec_step.

Theorem C03_bao_ob_rec_0 : forall (HO : hops) (data : bytes HO) (a b : N), bao_ob_rec HO 0 data a b = [].
Proof. exact bao_ob_rec_0. Qed.
Print Assumptions C03_bao_ob_rec_0.

Theorem C03_spec_outboard_bs0_is_bao : forall (HO : hops) (data : bytes HO),
  spec_outboard HO false data 0 = bao_outboard HO data.
Proof. exact spec_outboard_bs0_is_bao. Qed.
Print Assumptions C03_spec_outboard_bs0_is_bao.

(* every pre-order creation entry point at block size 0 stores bao's outboard; it is (chunks - 1) * 64 bytes *)
Theorem C03_bs0_outboard_is_bao : forall (HO : hops), cv_len32 HO ->
  forall (data : bytes HO), blen HO data <= 2 ^ 63 ->
  create_sized HO PreIO data (blen HO data) 0
    = Ok (mkOb PreIO (root_hash HO data) (mkTree (blen HO data) 0) (bao_outboard HO data)) /\
  create_sized_fsm HO PreIO data (blen HO data) 0
    = Ok (mkOb PreIO (root_hash HO data) (mkTree (blen HO data) 0) (bao_outboard HO data)) /\
  pre_mem_create HO data 0
    = Ok (mkOb PreMem (root_hash HO data) (mkTree (blen HO data) 0) (bao_outboard HO data)) /\
  blen HO (bao_outboard HO data) = (nchunks (blen HO data) - 1) * 64.
Proof. exact bs0_outboard_is_bao. Qed.
Print Assumptions C03_bs0_outboard_is_bao.

(* the outboard bytes for every block size, explicitly: for every node the crate persists, in pre / post order, the two
   chaining values of the node's children (true_pair, Spec/EncSpec.v) *)
Theorem C03_outboard_pairs : forall (HO : hops), cv_len32 HO ->
  forall (data : bytes HO) (bs : N), blen HO data <= 2 ^ 63 -> bs <= 10 ->
  forall post : bool,
  spec_outboard HO post data bs =
  concat (map (fun nd => fst (true_pair HO data nd) ++ snd (true_pair HO data nd))
              (filter (sp_persisted (blen HO data) bs)
                      (if post then sp_post_nodes (blen HO data) bs else sp_pre_nodes (blen HO data) bs))).
Proof. exact spec_outboard_pairs. Qed.
Print Assumptions C03_outboard_pairs.

(* pre- and post-order outboards hold the same pairs, in a different order *)
Theorem C03_outboard_same_pairs : forall (data_size bs : N), data_size <= 2 ^ 63 ->
  Permutation (filter (sp_persisted data_size bs) (sp_pre_nodes data_size bs))
              (filter (sp_persisted data_size bs) (sp_post_nodes data_size bs)).
Proof. exact spec_outboard_same_pairs. Qed.
Print Assumptions C03_outboard_same_pairs.

(* all creation entry points agree: the streaming post-order writer gives the bytes of the post-order stores; any two
   created stores (created_by: the six entry points) have the same root and tree, the same bytes when they have the same
   ordering, and the same loads (sync = fsm) at every node of the tree whatever their kinds; init_from on a pre-sized
   store gives what a fresh creation of that kind gives *)
Theorem C03_creation_agree : forall (HO : hops), cv_len32 HO ->
  forall (data : bytes HO) (bs : N), blen HO data <= 2 ^ 63 -> bs <= 10 ->
  (outboard_post_order HO (mkTree (blen HO data) bs) data
     = (Ok (root_hash HO data), spec_outboard HO true data bs, []) /\
   outboard_post_order_fsm HO (mkTree (blen HO data) bs) data
     = (Ok (root_hash HO data), spec_outboard HO true data bs, [])) /\
  (forall ob1 ob2 : outboard HO, created_by HO data bs ob1 -> created_by HO data bs ob2 ->
     ob_root ob1 = ob_root ob2 /\ ob_tree ob1 = ob_tree ob2 /\
     (is_post (ob_k ob1) = is_post (ob_k ob2) -> ob_data ob1 = ob_data ob2) /\
     (is_post (ob_k ob1) = true ->
        outboard_post_order HO (mkTree (blen HO data) bs) data = (Ok (ob_root ob1), ob_data ob1, [])) /\
     (forall nd, In nd (sp_pre_nodes (blen HO data) bs) ->
        load_sync HO ob1 nd = load_sync HO ob2 nd /\ load_fsm HO ob1 nd = load_fsm HO ob2 nd /\
        load_sync HO ob1 nd = load_fsm HO ob1 nd)) /\
  (forall ob0 ob : outboard HO,
     (ob_k ob0 = PreIO \/ ob_k ob0 = PostIO \/ ob_k ob0 = PreMem \/ ob_k ob0 = PostMem) ->
     ob_tree ob0 = mkTree (blen HO data) bs ->
     blen HO (ob_data ob0) = (sp_blocks (blen HO data) bs - 1) * 64 ->
     created_by HO data bs ob -> ob_k ob = ob_k ob0 ->
     init_from HO ob0 data = Ok ob /\ init_from_fsm HO ob0 data = Ok ob).
Proof. exact creation_agree. Qed.
Print Assumptions C03_creation_agree.

(* "re-initialising an existing outboard", in full generality for the io-backed outboards: init_from (sync and fsm) on a
   PreOrderOutboard / PostOrderOutboard whose byte vector holds ANYTHING of ANY length (empty: creation; a shorter or a
   longer stale file): the first (blocks - 1) * 64 bytes become the blob's outboard, bytes beyond are kept (the crate
   does not truncate the file: the resulting file is longer than (blocks - 1) * 64 exactly when the old one was), the
   root is the blob's, and every node of the tree loads the blob's true pair / no pair, sync and fsm alike *)
From BaoV Require Import Proofs.GapInit.
Theorem C03_init_from_io_any : forall (HO : hops), cv_len32 HO ->
  forall (data : bytes HO) (bs : N), blen HO data <= 2 ^ 63 -> bs <= 10 ->
  forall ob0 : outboard HO, (ob_k ob0 = PreIO \/ ob_k ob0 = PostIO) -> ob_tree ob0 = mkTree (blen HO data) bs ->
  exists ob, init_from HO ob0 data = Ok ob /\ init_from_fsm HO ob0 data = Ok ob /\
    ob_k ob = ob_k ob0 /\ ob_tree ob = mkTree (blen HO data) bs /\ ob_root ob = root_hash HO data /\
    take HO ((sp_blocks (blen HO data) bs - 1) * 64) (ob_data ob) = spec_outboard HO (is_post (ob_k ob0)) data bs /\
    drop HO ((sp_blocks (blen HO data) bs - 1) * 64) (ob_data ob)
      = drop HO ((sp_blocks (blen HO data) bs - 1) * 64) (ob_data ob0) /\
    (blen HO (ob_data ob0) <= (sp_blocks (blen HO data) bs - 1) * 64 -> created_store HO data bs ob) /\
    (forall nd, In nd (sp_pre_nodes (blen HO data) bs) ->
       (sp_persisted (blen HO data) bs nd = true ->
          load_sync HO ob nd = Ok (Some (true_pair HO data nd)) /\ load_fsm HO ob nd = Ok (Some (true_pair HO data nd))) /\
       (sp_persisted (blen HO data) bs nd = false -> load_sync HO ob nd = Ok None /\ load_fsm HO ob nd = Ok None)).
Proof. exact init_from_io_any_intact. Qed.
Print Assumptions C03_init_from_io_any.

(* is_post (Proofs/HistOb.v) *)
Theorem C03_is_post_def : forall k : ob_kind, is_post k = match k with PostIO | PostMem => true | _ => false end.
Proof. intro k. reflexivity. Qed.
Print Assumptions C03_is_post_def.
