(* C03 statements; proofs in Proofs/. *)
From BaoV Require Import Model.Sync Spec.EncSpec.
