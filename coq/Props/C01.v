(* C01 statements; proofs in Proofs/Dec*.v. *)
From BaoV Require Import Model.Fsm Spec.EncSpec Spec.HashAssm Spec.PTree.
From Coq Require Import Arith.
From BaoV Require Import Proofs.DecLoop Proofs.DecHash Proofs.DecForest Proofs.DecConst Proofs.DecRanges Proofs.DecTheorems Proofs.DecWitness.

(* ---- Part 1: the loops, and the decoders as folds over the plan list ---- *)

(* an iterator that ends within n < 2^64 steps is unrolled by run_iter *)
Theorem C01_run_iter_cons : forall (St A : Type) (next : St -> option (A * St)) n st x st',
  next st = Some (x, st') -> ends_within next st n -> (n < 2 ^ LOOP_DEPTH)%nat ->
  run_iter next st = x :: run_iter next st' /\ exists n', n = S n' /\ ends_within next st' n'.
Proof. exact @run_iter_cons. Qed.
Print Assumptions C01_run_iter_cons.

Theorem C01_run_iter_nil : forall (St A : Type) (next : St -> option (A * St)) st,
  next st = None -> run_iter next st = [].
Proof. exact @run_iter_nil. Qed.
Print Assumptions C01_run_iter_nil.

Theorem C01_loop_bound : forall n : nat, (N.of_nat n < 2 ^ 64)%N -> (n < 2 ^ LOOP_DEPTH)%nat.
Proof. exact loop_bound_of_N. Qed.
Print Assumptions C01_loop_bound.

(* dec_run is dec_items_sync over the plan the iterator yields (the iterator does not see the stream) *)
Theorem C01_dec_run_refines : forall HO n it stk enc,
  ends_within response_next it n -> (N.of_nat n < 2 ^ 64)%N ->
  let r := dec_items_sync HO (run_iter response_next it) stk enc in
  dec_run HO (mkD HO it stk enc) =
  (r_items HO r, r_outcome HO r,
   mkD HO (iter_skip response_next (consumed HO r) it) (r_stack HO r) (r_enc HO r)).
Proof. exact dec_run_refines. Qed.
Print Assumptions C01_dec_run_refines.

Theorem C01_rd_run_refines : forall HO n it stk enc root,
  ends_within response_next it n -> (N.of_nat n < 2 ^ 64)%N ->
  let r := dec_items_fsm HO (run_iter response_next it) stk enc in
  rd_run HO (mkR HO it stk enc root) =
  (r_items HO r, r_outcome HO r,
   mkR HO (iter_skip response_next (consumed HO r) it) (r_stack HO r) (r_enc HO r) root).
Proof. exact rd_run_refines. Qed.
Print Assumptions C01_rd_run_refines.

(* with a plan iterator that yields plan_of T, dec_run / rd_run are the plan decoders: every theorem
   below and in C09 about dec_items_sync / dec_items_fsm transfers to them *)
Theorem C01_sync_run_as_plan : forall HO (T : ptree HO) (stream : bytes HO) it n ys o st',
  run_iter response_next it = plan_of HO T ->
  ends_within response_next it n -> (N.of_nat n < 2 ^ 64)%N ->
  dec_run HO (mkD HO it [cv_of HO T] stream) = (ys, o, st') ->
  let r := dec_items_sync HO (plan_of HO T) [cv_of HO T] stream in
  ys = r_items HO r /\ o = r_outcome HO r /\ d_enc HO st' = r_enc HO r /\ d_stack HO st' = r_stack HO r.
Proof. exact sync_run_as_plan. Qed.
Print Assumptions C01_sync_run_as_plan.

Theorem C01_fsm_run_as_plan : forall HO (T : ptree HO) (stream : bytes HO) it n root ys o st',
  run_iter response_next it = plan_of HO T ->
  ends_within response_next it n -> (N.of_nat n < 2 ^ 64)%N ->
  rd_run HO (mkR HO it [cv_of HO T] stream root) = (ys, o, st') ->
  let r := dec_items_fsm HO (plan_of HO T) [cv_of HO T] stream in
  ys = r_items HO r /\ o = r_outcome HO r /\ Fsm.r_enc HO st' = r_enc HO r /\
  Fsm.r_stack HO st' = r_stack HO r /\ r_root HO st' = root.
Proof. exact fsm_run_as_plan. Qed.
Print Assumptions C01_fsm_run_as_plan.

(* ---- Part 2(a): soundness, for every stream ---- *)
Theorem C01_sync_sound : forall HO, hash_ok HO ->
  forall (T : ptree HO) (stream : bytes HO), consistent HO T -> leaves_ok HO T ->
  let r := dec_items_sync HO (plan_of HO T) [cv_of HO T] stream in
  let ys := r_items HO r in let o := r_outcome HO r in
  is_prefix ys (items_of HO T) /\
  (o = Finished -> ys = items_of HO T /\ stream = flat_items HO (items_of HO T) ++ r_enc HO r) /\
  (forall e, o = Failed e ->
     ~ is_prefix (flat_items HO (firstn (length ys + 1) (items_of HO T))) stream) /\
  o <> Panicked /\ o <> OutOfFuel.
Proof. exact sync_sound. Qed.
Print Assumptions C01_sync_sound.

Theorem C01_fsm_sound : forall HO, hash_ok HO ->
  forall (T : ptree HO) (stream : bytes HO), consistent HO T -> leaves_ok HO T ->
  let r := dec_items_fsm HO (plan_of HO T) [cv_of HO T] stream in
  let ys := r_items HO r in let o := r_outcome HO r in
  is_prefix ys (items_of HO T) /\
  (o = Finished -> ys = items_of HO T /\ stream = flat_items HO (items_of HO T) ++ r_enc HO r) /\
  (forall e, o = Failed e ->
     ~ is_prefix (flat_items HO (firstn (length ys + 1) (items_of HO T))) stream) /\
  o <> Panicked /\ o <> OutOfFuel.
Proof. exact fsm_sound. Qed.
Print Assumptions C01_fsm_sound.

(* the same for the state machines dec_run / rd_run, whenever the plan iterator yields plan_of T *)
Theorem C01_sync_sound_run : forall HO, hash_ok HO ->
  forall (T : ptree HO) (stream : bytes HO) it n ys o st',
  consistent HO T -> leaves_ok HO T ->
  run_iter response_next it = plan_of HO T ->
  ends_within response_next it n -> (N.of_nat n < 2 ^ 64)%N ->
  dec_run HO (mkD HO it [cv_of HO T] stream) = (ys, o, st') ->
  is_prefix ys (items_of HO T) /\
  (o = Finished -> ys = items_of HO T /\ stream = flat_items HO (items_of HO T) ++ d_enc HO st') /\
  (forall e, o = Failed e ->
     ~ is_prefix (flat_items HO (firstn (length ys + 1) (items_of HO T))) stream) /\
  o <> Panicked /\ o <> OutOfFuel.
Proof. exact sync_sound_run. Qed.
Print Assumptions C01_sync_sound_run.

Theorem C01_fsm_sound_run : forall HO, hash_ok HO ->
  forall (T : ptree HO) (stream : bytes HO) it n root ys o st',
  consistent HO T -> leaves_ok HO T ->
  run_iter response_next it = plan_of HO T ->
  ends_within response_next it n -> (N.of_nat n < 2 ^ 64)%N ->
  rd_run HO (mkR HO it [cv_of HO T] stream root) = (ys, o, st') ->
  is_prefix ys (items_of HO T) /\
  (o = Finished -> ys = items_of HO T /\ stream = flat_items HO (items_of HO T) ++ Fsm.r_enc HO st') /\
  (forall e, o = Failed e ->
     ~ is_prefix (flat_items HO (firstn (length ys + 1) (items_of HO T))) stream) /\
  o <> Panicked /\ o <> OutOfFuel.
Proof. exact fsm_sound_run. Qed.
Print Assumptions C01_fsm_sound_run.

(* ---- Part 2(c): completeness over a plan tree (C02_complete_over_tree) ---- *)
Theorem C01_complete : forall HO, hash_ok HO ->
  forall (T : ptree HO) (rest : bytes HO), consistent HO T -> leaves_ok HO T ->
  let stream := flat_items HO (items_of HO T) ++ rest in
  let r1 := dec_items_sync HO (plan_of HO T) [cv_of HO T] stream in
  let r2 := dec_items_fsm HO (plan_of HO T) [cv_of HO T] stream in
  (r_items HO r1 = items_of HO T /\ r_outcome HO r1 = Finished /\ r_enc HO r1 = rest) /\
  (r_items HO r2 = items_of HO T /\ r_outcome HO r2 = Finished /\ r_enc HO r2 = rest).
Proof. exact both_complete. Qed.
Print Assumptions C01_complete.

(* ---- Part 2(d): decode_ranges writes / saves exactly what the decoder yields ---- *)
Theorem C01_decode_ranges_sound : forall HO n encoded q target ob ys o stf,
  ends_within response_next (response_new (ob_tree ob) (truncate_ranges q (tsize (ob_tree ob)))) n ->
  (N.of_nat n < 2 ^ 64)%N ->
  dec_run HO (dec_new HO (ob_root ob) (ob_tree ob) encoded q) = (ys, o, stf) ->
  let a := apply_items HO ys target ob in
  exists st', decode_ranges HO encoded q target ob =
              (ranges_result (a_res HO a) o, a_target HO a, a_ob HO a, st').
Proof. exact decode_ranges_sound. Qed.
Print Assumptions C01_decode_ranges_sound.

Theorem C01_decode_ranges_fsm_sound : forall HO n encoded q target ob ys o stf,
  ends_within response_next (response_new (ob_tree ob) (truncate_ranges_owned q (tsize (ob_tree ob)))) n ->
  (N.of_nat n < 2 ^ 64)%N ->
  rd_run HO (rd_new HO (ob_root ob) q (ob_tree ob) encoded) = (ys, o, stf) ->
  let a := apply_items HO ys target ob in
  exists st', decode_ranges_fsm HO encoded q target ob =
              (ranges_result (a_res HO a) o, a_target HO a, a_ob HO a, st').
Proof. exact decode_ranges_fsm_sound. Qed.
Print Assumptions C01_decode_ranges_fsm_sound.

(* apply_items: the fold over the yielded items *)
Theorem C01_apply_items_fold : forall HO (target : bytes HO) (ob : outboard HO),
  apply_items HO [] target ob = (SOk, target, ob) /\
  (forall off d ys, apply_items HO (ILeaf off d :: ys) target ob
                    = apply_items HO ys (write_at HO target off d) ob) /\
  (forall node l r ys, apply_items HO (IParent node l r :: ys) target ob =
     match save HO ob node l r with
     | Ok ob' => apply_items HO ys target ob'
     | Err k => (SErr k, target, ob)
     | Panic => (SPanic, target, ob)
     end).
Proof. exact apply_items_fold. Qed.
Print Assumptions C01_apply_items_fold.

Theorem C01_ranges_result : forall sr o,
  (ranges_result sr o = Ok tt <-> sr = SOk /\ o = Finished) /\
  (forall e, ranges_result SOk (Failed e) = Err e) /\
  (forall k, ranges_result (SErr k) o = Err (DIo k)).
Proof. exact ranges_result_cases. Qed.
Print Assumptions C01_ranges_result.

(* the hash assumptions are satisfiable (free term algebra), so none of the above is vacuous *)
Theorem C01_hash_ok_inhabited : exists HO, hash_ok HO.
Proof. exact hash_ok_inhabited. Qed.
Print Assumptions C01_hash_ok_inhabited.

(* ======== End-to-end composition (proofs in Proofs/E2EGlue.v, E2EDecode.v, E2ERanges.v) ========
   The interface hypotheses of Parts 1-2 are discharged: the plan tree is spec_tree HO data bs q
   (Props/Bridge.v), the plan iterator yields its plan (Props/C15.v) and ends within its length < 2^64. *)
From BaoV Require Import Spec.RangeSpec Spec.PlanSpec Proofs.BridgeLeaves Proofs.E2EGlue Proofs.E2EDecode Proofs.E2ERanges.

(* A. the missing glue: the response iterator of a well-formed query is exhausted after exactly the items
   of the recursive plan, fewer than 2^64 *)
Theorem C01_response_ends_within : forall (size bs : N) (q : ranges),
  (size <= 2 ^ 63)%N -> (bs <= 10)%N -> wf_ranges q = true ->
  let n := length (pre_plan size 0 bs q) in
  ends_within response_next (response_new (mkTree size bs) q) n /\ (N.of_nat n < 2 ^ 64)%N.
Proof. exact response_ends_within. Qed.
Print Assumptions C01_response_ends_within.

(* flat (Spec/EncSpec.v) and flat_items (Spec/PTree.v) are the same function *)
Theorem C01_flat_is_flat_items : forall HO (l : list (item HO)), flat HO l = flat_items HO l.
Proof. exact flat_flat_items. Qed.
Print Assumptions C01_flat_is_flat_items.

(* B. the decoders set up for (root hash of the blob, tree of the blob, q), on EVERY stream:
   only a prefix of the honest encoding is ever yielded; Finished means all of it was yielded and the
   stream starts with the honest bytes; an error means the stream departs from the honest bytes inside
   the next item; no panic, no fuel exhaustion *)
Theorem C01_e2e_sync : forall HO, hash_ok HO ->
  forall (data : bytes HO) (bs : N) (q : ranges),
  (blen HO data <= 2 ^ 63)%N -> (bs <= 10)%N -> wf_ranges q = true -> q <> [] ->
  forall (stream : bytes HO) ys o st,
  dec_run HO (dec_new HO (root_hash HO data) (mkTree (blen HO data) bs) stream q) = (ys, o, st) ->
  is_prefix ys (honest HO data bs q) /\
  (o = Finished -> ys = honest HO data bs q /\ stream = flat HO (honest HO data bs q) ++ d_enc HO st) /\
  (forall e, o = Failed e ->
     ~ is_prefix (flat HO (firstn (length ys + 1) (honest HO data bs q))) stream) /\
  o <> Panicked /\ o <> OutOfFuel.
Proof. exact e2e_sync. Qed.
Print Assumptions C01_e2e_sync.

Theorem C01_e2e_fsm : forall HO, hash_ok HO ->
  forall (data : bytes HO) (bs : N) (q : ranges),
  (blen HO data <= 2 ^ 63)%N -> (bs <= 10)%N -> wf_ranges q = true -> q <> [] ->
  forall (stream : bytes HO) ys o st,
  rd_run HO (rd_new HO (root_hash HO data) q (mkTree (blen HO data) bs) stream) = (ys, o, st) ->
  is_prefix ys (honest HO data bs q) /\
  (o = Finished -> ys = honest HO data bs q /\ stream = flat HO (honest HO data bs q) ++ Fsm.r_enc HO st) /\
  (forall e, o = Failed e ->
     ~ is_prefix (flat HO (firstn (length ys + 1) (honest HO data bs q))) stream) /\
  o <> Panicked /\ o <> OutOfFuel.
Proof. exact e2e_fsm. Qed.
Print Assumptions C01_e2e_fsm.

(* decode_ranges on EVERY stream, for any target and any outboard carrying the blob's root and tree:
   the items applied (leaves written, parents saved, apply_items) are a prefix ys of the honest encoding;
   the result is ranges_result of the saves and of the decoder's outcome o *)
Theorem C01_e2e_decode_ranges : forall HO, hash_ok HO ->
  forall (data : bytes HO) (bs : N) (q : ranges),
  (blen HO data <= 2 ^ 63)%N -> (bs <= 10)%N -> wf_ranges q = true -> q <> [] ->
  forall (stream target : bytes HO) (ob : outboard HO),
  ob_root ob = root_hash HO data -> ob_tree ob = mkTree (blen HO data) bs ->
  exists ys o st',
    let a := apply_items HO ys target ob in
    decode_ranges HO stream q target ob = (ranges_result (a_res HO a) o, a_target HO a, a_ob HO a, st') /\
    is_prefix ys (honest HO data bs q) /\
    (o = Finished -> ys = honest HO data bs q /\ is_prefix (flat HO (honest HO data bs q)) stream) /\
    (forall e, o = Failed e ->
       ~ is_prefix (flat HO (firstn (length ys + 1) (honest HO data bs q))) stream) /\
    o <> Panicked /\ o <> OutOfFuel.
Proof. exact e2e_decode_ranges. Qed.
Print Assumptions C01_e2e_decode_ranges.

Theorem C01_e2e_decode_ranges_fsm : forall HO, hash_ok HO ->
  forall (data : bytes HO) (bs : N) (q : ranges),
  (blen HO data <= 2 ^ 63)%N -> (bs <= 10)%N -> wf_ranges q = true -> q <> [] ->
  forall (stream target : bytes HO) (ob : outboard HO),
  ob_root ob = root_hash HO data -> ob_tree ob = mkTree (blen HO data) bs ->
  exists ys o st',
    let a := apply_items HO ys target ob in
    decode_ranges_fsm HO stream q target ob = (ranges_result (a_res HO a) o, a_target HO a, a_ob HO a, st') /\
    is_prefix ys (honest HO data bs q) /\
    (o = Finished -> ys = honest HO data bs q /\ is_prefix (flat HO (honest HO data bs q)) stream) /\
    (forall e, o = Failed e ->
       ~ is_prefix (flat HO (firstn (length ys + 1) (honest HO data bs q))) stream) /\
    o <> Panicked /\ o <> OutOfFuel.
Proof. exact e2e_decode_ranges_fsm. Qed.
Print Assumptions C01_e2e_decode_ranges_fsm.

(* the returned target is the old target with the leaves of a prefix zs of the honest encoding written
   into it (write_leaves, Proofs/BridgeLeaves.v; every such leaf is ILeaf (s*1024) (chunk_bytes data s e)
   for a run [s,e) of selected chunks: Bridge_leaf_items); Ok means all honest leaves were written *)
Theorem C01_e2e_decode_ranges_target : forall HO, hash_ok HO ->
  forall (data : bytes HO) (bs : N) (q : ranges),
  (blen HO data <= 2 ^ 63)%N -> (bs <= 10)%N -> wf_ranges q = true -> q <> [] ->
  forall (stream target : bytes HO) (ob : outboard HO) res target' ob' st',
  ob_root ob = root_hash HO data -> ob_tree ob = mkTree (blen HO data) bs ->
  decode_ranges HO stream q target ob = (res, target', ob', st') ->
  exists zs, is_prefix zs (honest HO data bs q) /\ target' = write_leaves HO target zs /\
             (res = Ok tt -> zs = honest HO data bs q /\ is_prefix (flat HO (honest HO data bs q)) stream).
Proof. exact e2e_decode_ranges_target. Qed.
Print Assumptions C01_e2e_decode_ranges_target.

Theorem C01_e2e_decode_ranges_fsm_target : forall HO, hash_ok HO ->
  forall (data : bytes HO) (bs : N) (q : ranges),
  (blen HO data <= 2 ^ 63)%N -> (bs <= 10)%N -> wf_ranges q = true -> q <> [] ->
  forall (stream target : bytes HO) (ob : outboard HO) res target' ob' st',
  ob_root ob = root_hash HO data -> ob_tree ob = mkTree (blen HO data) bs ->
  decode_ranges_fsm HO stream q target ob = (res, target', ob', st') ->
  exists zs, is_prefix zs (honest HO data bs q) /\ target' = write_leaves HO target zs /\
             (res = Ok tt -> zs = honest HO data bs q /\ is_prefix (flat HO (honest HO data bs q)) stream).
Proof. exact e2e_decode_ranges_fsm_target. Qed.
Print Assumptions C01_e2e_decode_ranges_fsm_target.

(* every byte written is the blob's, at the right offset: for a target of the blob's length, whatever the
   stream and the result, every chunk of the returned target is either untouched or (selected and) the
   blob's chunk; on Ok every selected chunk is the blob's and every other chunk is untouched *)
Theorem C01_e2e_decode_ranges_bytes : forall HO, hash_ok HO ->
  forall (data : bytes HO) (bs : N) (q : ranges),
  (blen HO data <= 2 ^ 63)%N -> (bs <= 10)%N -> wf_ranges q = true -> q <> [] ->
  forall (stream target : bytes HO) (ob : outboard HO) res target' ob' st',
  ob_root ob = root_hash HO data -> ob_tree ob = mkTree (blen HO data) bs ->
  length target = length data ->
  decode_ranges HO stream q target ob = (res, target', ob', st') ->
  length target' = length data /\
  (forall c, (c < nchunks (blen HO data))%N ->
     chunk_bytes HO target' c (c + 1) = chunk_bytes HO target c (c + 1) \/
     (sel q (blen HO data) c = true /\ chunk_bytes HO target' c (c + 1) = chunk_bytes HO data c (c + 1))) /\
  (res = Ok tt -> forall c, (c < nchunks (blen HO data))%N ->
     chunk_bytes HO target' c (c + 1) =
     if sel q (blen HO data) c then chunk_bytes HO data c (c + 1) else chunk_bytes HO target c (c + 1)).
Proof. exact e2e_decode_ranges_bytes. Qed.
Print Assumptions C01_e2e_decode_ranges_bytes.

Theorem C01_e2e_decode_ranges_fsm_bytes : forall HO, hash_ok HO ->
  forall (data : bytes HO) (bs : N) (q : ranges),
  (blen HO data <= 2 ^ 63)%N -> (bs <= 10)%N -> wf_ranges q = true -> q <> [] ->
  forall (stream target : bytes HO) (ob : outboard HO) res target' ob' st',
  ob_root ob = root_hash HO data -> ob_tree ob = mkTree (blen HO data) bs ->
  length target = length data ->
  decode_ranges_fsm HO stream q target ob = (res, target', ob', st') ->
  length target' = length data /\
  (forall c, (c < nchunks (blen HO data))%N ->
     chunk_bytes HO target' c (c + 1) = chunk_bytes HO target c (c + 1) \/
     (sel q (blen HO data) c = true /\ chunk_bytes HO target' c (c + 1) = chunk_bytes HO data c (c + 1))) /\
  (res = Ok tt -> forall c, (c < nchunks (blen HO data))%N ->
     chunk_bytes HO target' c (c + 1) =
     if sel q (blen HO data) c then chunk_bytes HO data c (c + 1) else chunk_bytes HO target c (c + 1)).
Proof. exact e2e_decode_ranges_fsm_bytes. Qed.
Print Assumptions C01_e2e_decode_ranges_fsm_bytes.

(* what the leaves of any prefix of the honest encoding do to a target of the blob's length *)
Theorem C01_e2e_prefix_writes : forall HO (data : bytes HO) (bs : N) (q : ranges),
  (blen HO data <= 2 ^ 63)%N ->
  forall (target : bytes HO) zs, length target = length data -> is_prefix zs (honest HO data bs q) ->
  let out := write_leaves HO target zs in
  length out = length data /\
  forall c, (c < nchunks (blen HO data))%N ->
    chunk_bytes HO out c (c + 1) = chunk_bytes HO target c (c + 1) \/
    (sel q (blen HO data) c = true /\ chunk_bytes HO out c (c + 1) = chunk_bytes HO data c (c + 1)).
Proof. exact e2e_prefix_writes. Qed.
Print Assumptions C01_e2e_prefix_writes.
