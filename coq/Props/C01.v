(* C01 statements; proofs in Proofs/Dec*.v. *)
From BaoV Require Import Model.Fsm Spec.EncSpec Spec.HashAssm Spec.PTree.
From Coq Require Import Arith.
From BaoV Require Import Proofs.DecLoop Proofs.DecHash Proofs.DecForest Proofs.DecConst Proofs.DecRanges Proofs.DecTheorems Proofs.DecWitness.

(* ---- Part 1: the loops, and the decoders as folds over the plan list ---- *)

(* an iterator that ends within n < 2^64 steps is unrolled by run_iter *)
Theorem C01_run_iter_cons : forall (St A : Type) (next : St -> option (A * St)) n st x st',
  next st = Some (x, st') -> ends_within next st n -> (n < 2 ^ LOOP_DEPTH)%nat ->
  run_iter next st = x :: run_iter next st' /\ exists n', n = S n' /\ ends_within next st' n'.
Proof. exact @run_iter_cons. Qed.
Print Assumptions C01_run_iter_cons.

Theorem C01_run_iter_nil : forall (St A : Type) (next : St -> option (A * St)) st,
  next st = None -> run_iter next st = [].
Proof. exact @run_iter_nil. Qed.
Print Assumptions C01_run_iter_nil.

Theorem C01_loop_bound : forall n : nat, (N.of_nat n < 2 ^ 64)%N -> (n < 2 ^ LOOP_DEPTH)%nat.
Proof. exact loop_bound_of_N. Qed.
Print Assumptions C01_loop_bound.

(* dec_run is dec_items_sync over the plan the iterator yields (the iterator does not see the stream) *)
Theorem C01_dec_run_refines : forall HO n it stk enc,
  ends_within response_next it n -> (N.of_nat n < 2 ^ 64)%N ->
  let r := dec_items_sync HO (run_iter response_next it) stk enc in
  dec_run HO (mkD HO it stk enc) =
  (r_items HO r, r_outcome HO r,
   mkD HO (iter_skip response_next (consumed HO r) it) (r_stack HO r) (r_enc HO r)).
Proof. exact dec_run_refines. Qed.
Print Assumptions C01_dec_run_refines.

Theorem C01_rd_run_refines : forall HO n it stk enc root,
  ends_within response_next it n -> (N.of_nat n < 2 ^ 64)%N ->
  let r := dec_items_fsm HO (run_iter response_next it) stk enc in
  rd_run HO (mkR HO it stk enc root) =
  (r_items HO r, r_outcome HO r,
   mkR HO (iter_skip response_next (consumed HO r) it) (r_stack HO r) (r_enc HO r) root).
Proof. exact rd_run_refines. Qed.
Print Assumptions C01_rd_run_refines.

(* with a plan iterator that yields plan_of T, dec_run / rd_run are the plan decoders: every theorem
   below and in C09 about dec_items_sync / dec_items_fsm transfers to them *)
Theorem C01_sync_run_as_plan : forall HO (T : ptree HO) (stream : bytes HO) it n ys o st',
  run_iter response_next it = plan_of HO T ->
  ends_within response_next it n -> (N.of_nat n < 2 ^ 64)%N ->
  dec_run HO (mkD HO it [cv_of HO T] stream) = (ys, o, st') ->
  let r := dec_items_sync HO (plan_of HO T) [cv_of HO T] stream in
  ys = r_items HO r /\ o = r_outcome HO r /\ d_enc HO st' = r_enc HO r /\ d_stack HO st' = r_stack HO r.
Proof. exact sync_run_as_plan. Qed.
Print Assumptions C01_sync_run_as_plan.

Theorem C01_fsm_run_as_plan : forall HO (T : ptree HO) (stream : bytes HO) it n root ys o st',
  run_iter response_next it = plan_of HO T ->
  ends_within response_next it n -> (N.of_nat n < 2 ^ 64)%N ->
  rd_run HO (mkR HO it [cv_of HO T] stream root) = (ys, o, st') ->
  let r := dec_items_fsm HO (plan_of HO T) [cv_of HO T] stream in
  ys = r_items HO r /\ o = r_outcome HO r /\ Fsm.r_enc HO st' = r_enc HO r /\
  Fsm.r_stack HO st' = r_stack HO r /\ r_root HO st' = root.
Proof. exact fsm_run_as_plan. Qed.
Print Assumptions C01_fsm_run_as_plan.

(* ---- Part 2(a): soundness, for every stream ---- *)
Theorem C01_sync_sound : forall HO, hash_ok HO ->
  forall (T : ptree HO) (stream : bytes HO), consistent HO T -> leaves_ok HO T ->
  let r := dec_items_sync HO (plan_of HO T) [cv_of HO T] stream in
  let ys := r_items HO r in let o := r_outcome HO r in
  is_prefix ys (items_of HO T) /\
  (o = Finished -> ys = items_of HO T /\ stream = flat_items HO (items_of HO T) ++ r_enc HO r) /\
  (forall e, o = Failed e ->
     ~ is_prefix (flat_items HO (firstn (length ys + 1) (items_of HO T))) stream) /\
  o <> Panicked /\ o <> OutOfFuel.
Proof. exact sync_sound. Qed.
Print Assumptions C01_sync_sound.

Theorem C01_fsm_sound : forall HO, hash_ok HO ->
  forall (T : ptree HO) (stream : bytes HO), consistent HO T -> leaves_ok HO T ->
  let r := dec_items_fsm HO (plan_of HO T) [cv_of HO T] stream in
  let ys := r_items HO r in let o := r_outcome HO r in
  is_prefix ys (items_of HO T) /\
  (o = Finished -> ys = items_of HO T /\ stream = flat_items HO (items_of HO T) ++ r_enc HO r) /\
  (forall e, o = Failed e ->
     ~ is_prefix (flat_items HO (firstn (length ys + 1) (items_of HO T))) stream) /\
  o <> Panicked /\ o <> OutOfFuel.
Proof. exact fsm_sound. Qed.
Print Assumptions C01_fsm_sound.

(* the same for the state machines dec_run / rd_run, whenever the plan iterator yields plan_of T *)
Theorem C01_sync_sound_run : forall HO, hash_ok HO ->
  forall (T : ptree HO) (stream : bytes HO) it n ys o st',
  consistent HO T -> leaves_ok HO T ->
  run_iter response_next it = plan_of HO T ->
  ends_within response_next it n -> (N.of_nat n < 2 ^ 64)%N ->
  dec_run HO (mkD HO it [cv_of HO T] stream) = (ys, o, st') ->
  is_prefix ys (items_of HO T) /\
  (o = Finished -> ys = items_of HO T /\ stream = flat_items HO (items_of HO T) ++ d_enc HO st') /\
  (forall e, o = Failed e ->
     ~ is_prefix (flat_items HO (firstn (length ys + 1) (items_of HO T))) stream) /\
  o <> Panicked /\ o <> OutOfFuel.
Proof. exact sync_sound_run. Qed.
Print Assumptions C01_sync_sound_run.

Theorem C01_fsm_sound_run : forall HO, hash_ok HO ->
  forall (T : ptree HO) (stream : bytes HO) it n root ys o st',
  consistent HO T -> leaves_ok HO T ->
  run_iter response_next it = plan_of HO T ->
  ends_within response_next it n -> (N.of_nat n < 2 ^ 64)%N ->
  rd_run HO (mkR HO it [cv_of HO T] stream root) = (ys, o, st') ->
  is_prefix ys (items_of HO T) /\
  (o = Finished -> ys = items_of HO T /\ stream = flat_items HO (items_of HO T) ++ Fsm.r_enc HO st') /\
  (forall e, o = Failed e ->
     ~ is_prefix (flat_items HO (firstn (length ys + 1) (items_of HO T))) stream) /\
  o <> Panicked /\ o <> OutOfFuel.
Proof. exact fsm_sound_run. Qed.
Print Assumptions C01_fsm_sound_run.

(* ---- Part 2(c): completeness over a plan tree (C02_complete_over_tree) ---- *)
Theorem C01_complete : forall HO, hash_ok HO ->
  forall (T : ptree HO) (rest : bytes HO), consistent HO T -> leaves_ok HO T ->
  let stream := flat_items HO (items_of HO T) ++ rest in
  let r1 := dec_items_sync HO (plan_of HO T) [cv_of HO T] stream in
  let r2 := dec_items_fsm HO (plan_of HO T) [cv_of HO T] stream in
  (r_items HO r1 = items_of HO T /\ r_outcome HO r1 = Finished /\ r_enc HO r1 = rest) /\
  (r_items HO r2 = items_of HO T /\ r_outcome HO r2 = Finished /\ r_enc HO r2 = rest).
Proof. exact both_complete. Qed.
Print Assumptions C01_complete.

(* ---- Part 2(d): decode_ranges writes / saves exactly what the decoder yields ---- *)
Theorem C01_decode_ranges_sound : forall HO n encoded q target ob ys o stf,
  ends_within response_next (response_new (ob_tree ob) (truncate_ranges q (tsize (ob_tree ob)))) n ->
  (N.of_nat n < 2 ^ 64)%N ->
  dec_run HO (dec_new HO (ob_root ob) (ob_tree ob) encoded q) = (ys, o, stf) ->
  let a := apply_items HO ys target ob in
  exists st', decode_ranges HO encoded q target ob =
              (ranges_result (a_res HO a) o, a_target HO a, a_ob HO a, st').
Proof. exact decode_ranges_sound. Qed.
Print Assumptions C01_decode_ranges_sound.

Theorem C01_decode_ranges_fsm_sound : forall HO n encoded q target ob ys o stf,
  ends_within response_next (response_new (ob_tree ob) (truncate_ranges_owned q (tsize (ob_tree ob)))) n ->
  (N.of_nat n < 2 ^ 64)%N ->
  rd_run HO (rd_new HO (ob_root ob) q (ob_tree ob) encoded) = (ys, o, stf) ->
  let a := apply_items HO ys target ob in
  exists st', decode_ranges_fsm HO encoded q target ob =
              (ranges_result (a_res HO a) o, a_target HO a, a_ob HO a, st').
Proof. exact decode_ranges_fsm_sound. Qed.
Print Assumptions C01_decode_ranges_fsm_sound.

(* apply_items: the fold over the yielded items *)
Theorem C01_apply_items_fold : forall HO (target : bytes HO) (ob : outboard HO),
  apply_items HO [] target ob = (SOk, target, ob) /\
  (forall off d ys, apply_items HO (ILeaf off d :: ys) target ob
                    = apply_items HO ys (write_at HO target off d) ob) /\
  (forall node l r ys, apply_items HO (IParent node l r :: ys) target ob =
     match save HO ob node l r with
     | Ok ob' => apply_items HO ys target ob'
     | Err k => (SErr k, target, ob)
     | Panic => (SPanic, target, ob)
     end).
Proof. exact apply_items_fold. Qed.
Print Assumptions C01_apply_items_fold.

Theorem C01_ranges_result : forall sr o,
  (ranges_result sr o = Ok tt <-> sr = SOk /\ o = Finished) /\
  (forall e, ranges_result SOk (Failed e) = Err e) /\
  (forall k, ranges_result (SErr k) o = Err (DIo k)).
Proof. exact ranges_result_cases. Qed.
Print Assumptions C01_ranges_result.

(* the hash assumptions are satisfiable (free term algebra), so none of the above is vacuous *)
Theorem C01_hash_ok_inhabited : exists HO, hash_ok HO.
Proof. exact hash_ok_inhabited. Qed.
Print Assumptions C01_hash_ok_inhabited.

(* ======== End-to-end composition (proofs in Proofs/E2EGlue.v, E2EDecode.v, E2ERanges.v) ========
   The interface hypotheses of Parts 1-2 are discharged: the plan tree is spec_tree HO data bs q
   (Props/Bridge.v), the plan iterator yields its plan (Props/C15.v) and ends within its length < 2^64. *)
From BaoV Require Import Spec.RangeSpec Spec.PlanSpec Proofs.BridgeLeaves Proofs.E2EGlue Proofs.E2EDecode Proofs.E2ERanges.

(* A. the missing glue: the response iterator of a well-formed query is exhausted after exactly the items
   of the recursive plan, fewer than 2^64 *)
Theorem C01_response_ends_within : forall (size bs : N) (q : ranges),
  (size <= 2 ^ 63)%N -> (bs <= 10)%N -> wf_ranges q = true ->
  let n := length (pre_plan size 0 bs q) in
  ends_within response_next (response_new (mkTree size bs) q) n /\ (N.of_nat n < 2 ^ 64)%N.
Proof. exact response_ends_within. Qed.
Print Assumptions C01_response_ends_within.

(* flat (Spec/EncSpec.v) and flat_items (Spec/PTree.v) are the same function *)
Theorem C01_flat_is_flat_items : forall HO (l : list (item HO)), flat HO l = flat_items HO l.
Proof. exact flat_flat_items. Qed.
Print Assumptions C01_flat_is_flat_items.

(* B. the decoders set up for (root hash of the blob, tree of the blob, q), on EVERY stream:
   only a prefix of the honest encoding is ever yielded; Finished means all of it was yielded and the
   stream starts with the honest bytes; an error means the stream departs from the honest bytes inside
   the next item; no panic, no fuel exhaustion *)
Theorem C01_e2e_sync : forall HO, hash_ok HO ->
  forall (data : bytes HO) (bs : N) (q : ranges),
  (blen HO data <= 2 ^ 63)%N -> (bs <= 10)%N -> wf_ranges q = true -> q <> [] ->
  forall (stream : bytes HO) ys o st,
  dec_run HO (dec_new HO (root_hash HO data) (mkTree (blen HO data) bs) stream q) = (ys, o, st) ->
  is_prefix ys (honest HO data bs q) /\
  (o = Finished -> ys = honest HO data bs q /\ stream = flat HO (honest HO data bs q) ++ d_enc HO st) /\
  (forall e, o = Failed e ->
     ~ is_prefix (flat HO (firstn (length ys + 1) (honest HO data bs q))) stream) /\
  o <> Panicked /\ o <> OutOfFuel.
Proof. exact e2e_sync. Qed.
Print Assumptions C01_e2e_sync.

Theorem C01_e2e_fsm : forall HO, hash_ok HO ->
  forall (data : bytes HO) (bs : N) (q : ranges),
  (blen HO data <= 2 ^ 63)%N -> (bs <= 10)%N -> wf_ranges q = true -> q <> [] ->
  forall (stream : bytes HO) ys o st,
  rd_run HO (rd_new HO (root_hash HO data) q (mkTree (blen HO data) bs) stream) = (ys, o, st) ->
  is_prefix ys (honest HO data bs q) /\
  (o = Finished -> ys = honest HO data bs q /\ stream = flat HO (honest HO data bs q) ++ Fsm.r_enc HO st) /\
  (forall e, o = Failed e ->
     ~ is_prefix (flat HO (firstn (length ys + 1) (honest HO data bs q))) stream) /\
  o <> Panicked /\ o <> OutOfFuel.
Proof. exact e2e_fsm. Qed.
Print Assumptions C01_e2e_fsm.

(* decode_ranges on EVERY stream, for any target and any outboard carrying the blob's root and tree:
   the items applied (leaves written, parents saved, apply_items) are a prefix ys of the honest encoding;
   the result is ranges_result of the saves and of the decoder's outcome o *)
Theorem C01_e2e_decode_ranges : forall HO, hash_ok HO ->
  forall (data : bytes HO) (bs : N) (q : ranges),
  (blen HO data <= 2 ^ 63)%N -> (bs <= 10)%N -> wf_ranges q = true -> q <> [] ->
  forall (stream target : bytes HO) (ob : outboard HO),
  ob_root ob = root_hash HO data -> ob_tree ob = mkTree (blen HO data) bs ->
  exists ys o st',
    let a := apply_items HO ys target ob in
    decode_ranges HO stream q target ob = (ranges_result (a_res HO a) o, a_target HO a, a_ob HO a, st') /\
    is_prefix ys (honest HO data bs q) /\
    (o = Finished -> ys = honest HO data bs q /\ is_prefix (flat HO (honest HO data bs q)) stream) /\
    (forall e, o = Failed e ->
       ~ is_prefix (flat HO (firstn (length ys + 1) (honest HO data bs q))) stream) /\
    o <> Panicked /\ o <> OutOfFuel.
Proof. exact e2e_decode_ranges. Qed.
Print Assumptions C01_e2e_decode_ranges.

Theorem C01_e2e_decode_ranges_fsm : forall HO, hash_ok HO ->
  forall (data : bytes HO) (bs : N) (q : ranges),
  (blen HO data <= 2 ^ 63)%N -> (bs <= 10)%N -> wf_ranges q = true -> q <> [] ->
  forall (stream target : bytes HO) (ob : outboard HO),
  ob_root ob = root_hash HO data -> ob_tree ob = mkTree (blen HO data) bs ->
  exists ys o st',
    let a := apply_items HO ys target ob in
    decode_ranges_fsm HO stream q target ob = (ranges_result (a_res HO a) o, a_target HO a, a_ob HO a, st') /\
    is_prefix ys (honest HO data bs q) /\
    (o = Finished -> ys = honest HO data bs q /\ is_prefix (flat HO (honest HO data bs q)) stream) /\
    (forall e, o = Failed e ->
       ~ is_prefix (flat HO (firstn (length ys + 1) (honest HO data bs q))) stream) /\
    o <> Panicked /\ o <> OutOfFuel.
Proof. exact e2e_decode_ranges_fsm. Qed.
Print Assumptions C01_e2e_decode_ranges_fsm.

(* the returned target is the old target with the leaves of a prefix zs of the honest encoding written
   into it (write_leaves, Proofs/BridgeLeaves.v; every such leaf is ILeaf (s*1024) (chunk_bytes data s e)
   for a run [s,e) of selected chunks: Bridge_leaf_items); Ok means all honest leaves were written *)
Theorem C01_e2e_decode_ranges_target : forall HO, hash_ok HO ->
  forall (data : bytes HO) (bs : N) (q : ranges),
  (blen HO data <= 2 ^ 63)%N -> (bs <= 10)%N -> wf_ranges q = true -> q <> [] ->
  forall (stream target : bytes HO) (ob : outboard HO) res target' ob' st',
  ob_root ob = root_hash HO data -> ob_tree ob = mkTree (blen HO data) bs ->
  decode_ranges HO stream q target ob = (res, target', ob', st') ->
  exists zs, is_prefix zs (honest HO data bs q) /\ target' = write_leaves HO target zs /\
             (res = Ok tt -> zs = honest HO data bs q /\ is_prefix (flat HO (honest HO data bs q)) stream).
Proof. exact e2e_decode_ranges_target. Qed.
Print Assumptions C01_e2e_decode_ranges_target.

Theorem C01_e2e_decode_ranges_fsm_target : forall HO, hash_ok HO ->
  forall (data : bytes HO) (bs : N) (q : ranges),
  (blen HO data <= 2 ^ 63)%N -> (bs <= 10)%N -> wf_ranges q = true -> q <> [] ->
  forall (stream target : bytes HO) (ob : outboard HO) res target' ob' st',
  ob_root ob = root_hash HO data -> ob_tree ob = mkTree (blen HO data) bs ->
  decode_ranges_fsm HO stream q target ob = (res, target', ob', st') ->
  exists zs, is_prefix zs (honest HO data bs q) /\ target' = write_leaves HO target zs /\
             (res = Ok tt -> zs = honest HO data bs q /\ is_prefix (flat HO (honest HO data bs q)) stream).
Proof. exact e2e_decode_ranges_fsm_target. Qed.
Print Assumptions C01_e2e_decode_ranges_fsm_target.

(* every byte written is the blob's, at the right offset: for a target of the blob's length, whatever the
   stream and the result, every chunk of the returned target is either untouched or (selected and) the
   blob's chunk; on Ok every selected chunk is the blob's and every other chunk is untouched *)
Theorem C01_e2e_decode_ranges_bytes : forall HO, hash_ok HO ->
  forall (data : bytes HO) (bs : N) (q : ranges),
  (blen HO data <= 2 ^ 63)%N -> (bs <= 10)%N -> wf_ranges q = true -> q <> [] ->
  forall (stream target : bytes HO) (ob : outboard HO) res target' ob' st',
  ob_root ob = root_hash HO data -> ob_tree ob = mkTree (blen HO data) bs ->
  length target = length data ->
  decode_ranges HO stream q target ob = (res, target', ob', st') ->
  length target' = length data /\
  (forall c, (c < nchunks (blen HO data))%N ->
     chunk_bytes HO target' c (c + 1) = chunk_bytes HO target c (c + 1) \/
     (sel q (blen HO data) c = true /\ chunk_bytes HO target' c (c + 1) = chunk_bytes HO data c (c + 1))) /\
  (res = Ok tt -> forall c, (c < nchunks (blen HO data))%N ->
     chunk_bytes HO target' c (c + 1) =
     if sel q (blen HO data) c then chunk_bytes HO data c (c + 1) else chunk_bytes HO target c (c + 1)).
Proof. exact e2e_decode_ranges_bytes. Qed.
Print Assumptions C01_e2e_decode_ranges_bytes.

Theorem C01_e2e_decode_ranges_fsm_bytes : forall HO, hash_ok HO ->
  forall (data : bytes HO) (bs : N) (q : ranges),
  (blen HO data <= 2 ^ 63)%N -> (bs <= 10)%N -> wf_ranges q = true -> q <> [] ->
  forall (stream target : bytes HO) (ob : outboard HO) res target' ob' st',
  ob_root ob = root_hash HO data -> ob_tree ob = mkTree (blen HO data) bs ->
  length target = length data ->
  decode_ranges_fsm HO stream q target ob = (res, target', ob', st') ->
  length target' = length data /\
  (forall c, (c < nchunks (blen HO data))%N ->
     chunk_bytes HO target' c (c + 1) = chunk_bytes HO target c (c + 1) \/
     (sel q (blen HO data) c = true /\ chunk_bytes HO target' c (c + 1) = chunk_bytes HO data c (c + 1))) /\
  (res = Ok tt -> forall c, (c < nchunks (blen HO data))%N ->
     chunk_bytes HO target' c (c + 1) =
     if sel q (blen HO data) c then chunk_bytes HO data c (c + 1) else chunk_bytes HO target c (c + 1)).
Proof. exact e2e_decode_ranges_fsm_bytes. Qed.
Print Assumptions C01_e2e_decode_ranges_fsm_bytes.

(* what the leaves of any prefix of the honest encoding do to a target of the blob's length *)
Theorem C01_e2e_prefix_writes : forall HO (data : bytes HO) (bs : N) (q : ranges),
  (blen HO data <= 2 ^ 63)%N ->
  forall (target : bytes HO) zs, length target = length data -> is_prefix zs (honest HO data bs q) ->
  let out := write_leaves HO target zs in
  length out = length data /\
  forall c, (c < nchunks (blen HO data))%N ->
    chunk_bytes HO out c (c + 1) = chunk_bytes HO target c (c + 1) \/
    (sel q (blen HO data) c = true /\ chunk_bytes HO out c (c + 1) = chunk_bytes HO data c (c + 1)).
Proof. exact e2e_prefix_writes. Qed.
Print Assumptions C01_e2e_prefix_writes.

(* ======== Gap audit: polls that continue after an error; every well-formed query (q = [] included) ========
   Proofs in Proofs/GapPolls.v, GapLenient.v, GapPollsE2E.v, GapWitness.v, GapDrivers.v, GapStatements.v. *)
From BaoV Require Import Model.IOSched.
From BaoV Require Import Proofs.GapPolls Proofs.GapLenient Proofs.GapPollsE2E Proofs.GapWitness Proofs.GapDrivers
                         Proofs.GapStatements Proofs.GapNonvac.

(* dec_polls st0 tr st / rd_polls st0 tr st: st is reached from st0 by ANY sequence of calls of next, whatever
   they returned, and tr lists what the calls returned, in order *)
Theorem C01_polls_def : forall HO (st0 : dstate HO) (r0 : rstate HO),
  dec_polls HO st0 [] st0 /\
  (forall tr st r st', dec_polls HO st0 tr st -> dec_next HO st = Some (r, st') -> dec_polls HO st0 (tr ++ [r]) st') /\
  rd_polls HO r0 [] r0 /\
  (forall tr st r st', rd_polls HO r0 tr st -> rd_next HO st = RMore st' r -> rd_polls HO r0 (tr ++ [r]) st').
Proof. exact polls_def. Qed.
Print Assumptions C01_polls_def.

(* they reach exactly the states of dec_reach / rd_reach (C20_reach_def) *)
Theorem C01_polls_reach : forall HO (st0 st : dstate HO) (r0 r : rstate HO),
  (dec_reach HO st0 st <-> exists tr, dec_polls HO st0 tr st) /\
  (rd_reach HO r0 r <-> exists tr, rd_polls HO r0 tr r).
Proof. exact polls_reach. Qed.
Print Assumptions C01_polls_reach.

(* THE DECODERS OF A BLOB, POLLED IN ANY WAY, ON ANY STREAM.  Let tr be the results of any sequence of calls of
   next of either decoder set up with the blob's root hash and geometry.  As long as every earlier call returned
   Ok or a LEAF hash mismatch, the k-th call
     - hands out, if it returns Ok, exactly the k-th item of the honest encoding (no foreign item),
     - does not panic,
   and if it returns a not-found error then every later call returns an error (no item, no panic).
   (A leaf hash mismatch leaves both decoders in the state of an accepted leaf.)  Nothing of this survives a
   PARENT hash mismatch: see the three _refuted theorems below. *)
Theorem C01_repoll_sound : forall HO, hash_ok HO ->
  forall (data : bytes HO) (bs : N) (q : ranges),
  (blen HO data <= 2 ^ 63)%N -> (bs <= 10)%N -> wf_ranges q = true ->
  forall (stream : bytes HO) (tr : list (res dec_err (item HO))),
  (exists st, dec_polls HO (dec_new HO (root_hash HO data) (mkTree (blen HO data) bs) stream q) tr st) \/
  (exists st, rd_polls HO (rd_new HO (root_hash HO data) q (mkTree (blen HO data) bs) stream) tr st) ->
  forall k : nat,
    (forall j r, (j < k)%nat -> nth_error tr j = Some r ->
       (exists it, r = Ok it) \/ (exists c, r = Err (DLeafHashMismatch c))) ->
    (forall it, nth_error tr k = Some (Ok it) -> nth_error (honest HO data bs q) k = Some it) /\
    nth_error tr k <> Some Panic /\
    (forall e, nth_error tr k = Some (Err e) ->
       ((exists n, e = DParentNotFound n) \/ (exists c, e = DLeafNotFound c)) ->
       forall j r, (k < j)%nat -> nth_error tr j = Some r -> exists e', r = Err e').
Proof. exact repoll_sound. Qed.
Print Assumptions C01_repoll_sound.

(* the same over an arbitrary consistent plan tree, for the plan decoders polled through the whole plan:
   poll_list step plan stk enc = (results of polling every item of the plan in turn, final stack, unread stream) *)
Theorem C01_poll_list_def : forall HO step,
  (forall stk enc, poll_list HO step [] stk enc = ([], stk, enc)) /\
  (forall c p stk enc r stk1 enc1 rs stk2 enc2, step c stk enc = (r, stk1, enc1) ->
     poll_list HO step p stk1 enc1 = (rs, stk2, enc2) ->
     poll_list HO step (c :: p) stk enc = (r :: rs, stk2, enc2)).
Proof. exact poll_list_def. Qed.
Print Assumptions C01_poll_list_def.

(* tail_ok plan: every leaf is non-empty and a leaf shorter than a hash pair is followed by no other leaf *)
Theorem C01_tail_ok_def :
  (tail_ok [] <-> True) /\
  (forall n ir lf rt rs p, tail_ok (CParent n ir lf rt rs :: p) <-> tail_ok p) /\
  (forall s z ir rs p, tail_ok (CLeaf s z ir rs :: p) <->
     (z <> 0 /\ (z < 64 -> forall s' z' ir' rs', ~ In (CLeaf s' z' ir' rs') p) /\ tail_ok p))%N.
Proof. exact tail_ok_def. Qed.
Print Assumptions C01_tail_ok_def.

(* ... which the plan of every geometry and well-formed query satisfies (or the plan has at most one item) *)
Theorem C01_tail_ok_plan : forall size ml q, (size <= 2 ^ 63)%N -> wf_ranges q = true ->
  tail_ok (pre_plan size 0 ml q) \/ (length (pre_plan size 0 ml q) <= 1)%nat.
Proof. exact tail_ok_pre_plan. Qed.
Print Assumptions C01_tail_ok_plan.

Theorem C01_repoll_sound_tree : forall HO, hash_ok HO ->
  forall step, step = step_sync HO \/ step = step_fsm HO ->
  forall (T : ptree HO) (s : bytes HO), consistent HO T -> leaves_ok HO T ->
  forall rs stk' enc', poll_list HO step (plan_of HO T) [cv_of HO T] s = (rs, stk', enc') ->
  forall k : nat,
    (forall j r, (j < k)%nat -> nth_error rs j = Some r ->
       (exists it, r = Ok it) \/ (exists c, r = Err (DLeafHashMismatch c))) ->
    (forall it, nth_error rs k = Some (Ok it) -> nth_error (items_of HO T) k = Some it) /\
    nth_error rs k <> Some Panic /\
    (tail_ok (plan_of HO T) -> forall e, nth_error rs k = Some (Err e) ->
       ((exists n, e = DParentNotFound n) \/ (exists c, e = DLeafNotFound c)) ->
       forall j r, (k < j)%nat -> nth_error rs j = Some r -> exists e', r = Err e').
Proof. exact repoll_sound_tree. Qed.
Print Assumptions C01_repoll_sound_tree.

(* F7 (fsm), with a collision-free hash: polled again after a ParentHashMismatch the state machine hands out
   FOREIGN LEAF DATA as Ok (the children named by the rejected pair were pushed before the comparison) *)
Theorem C01_fsm_repoll_foreign_leaf_refuted :
  exists HO, hash_ok HO /\
  exists (data stream : bytes HO) (bs : N) (q : ranges) tr st (n off : N) (d : bytes HO),
    (blen HO data <= 2 ^ 63)%N /\ (bs <= 10)%N /\ wf_ranges q = true /\
    rd_polls HO (rd_new HO (root_hash HO data) q (mkTree (blen HO data) bs) stream) tr st /\
    nth_error tr 0 = Some (Err (DParentHashMismatch n)) /\
    nth_error tr 1 = Some (Ok (ILeaf off d)) /\
    nth_error (honest HO data bs q) 1 <> Some (ILeaf off d) /\
    d <> take HO (blen HO d) (drop HO off data).
Proof. exact fsm_repoll_foreign_leaf. Qed.
Print Assumptions C01_fsm_repoll_foreign_leaf_refuted.

(* F8 (sync): polled again after a ParentHashMismatch the iterator panics (stack.pop().unwrap() on an empty stack) *)
Theorem C01_sync_repoll_panics_refuted :
  exists HO, hash_ok HO /\
  exists (data stream : bytes HO) (bs : N) (q : ranges) tr st (n : N),
    (blen HO data <= 2 ^ 63)%N /\ (bs <= 10)%N /\ wf_ranges q = true /\
    dec_polls HO (dec_new HO (root_hash HO data) (mkTree (blen HO data) bs) stream q) tr st /\
    nth_error tr 0 = Some (Err (DParentHashMismatch n)) /\
    nth_error tr 1 = Some Panic.
Proof. exact sync_repoll_panics. Qed.
Print Assumptions C01_sync_repoll_panics_refuted.

(* NEW (sync): polled again after the ParentHashMismatch of an INNER node the iterator can also hand out a
   foreign PARENT item as Ok: the honest pair of another node m under the node id n' (the stale stack entry of
   m's subtree is compared with the next pair of the stream) *)
Theorem C01_sync_repoll_foreign_parent_refuted :
  exists HO, hash_ok HO /\
  exists (data stream : bytes HO) (bs : N) (q : ranges) tr st (n n' m : N) (l r : hash HO),
    (blen HO data <= 2 ^ 63)%N /\ (bs <= 10)%N /\ wf_ranges q = true /\
    dec_polls HO (dec_new HO (root_hash HO data) (mkTree (blen HO data) bs) stream q) tr st /\
    nth_error tr 1 = Some (Err (DParentHashMismatch n)) /\
    nth_error tr 2 = Some (Ok (IParent n' l r)) /\
    In (IParent m l r) (honest HO data bs q) /\ m <> n' /\
    (forall l' r', In (IParent n' l' r') (honest HO data bs q) -> l' <> l).
Proof. exact sync_repoll_foreign_parent. Qed.
Print Assumptions C01_sync_repoll_foreign_parent_refuted.

(* polls of the reader-based decoders of Model/IOSched.v *)
Theorem C01_polls_r_def : forall HO (st0 : dstate_r HO) (r0 : rstate_r HO),
  dec_polls_r HO st0 [] st0 /\
  (forall st r st1 tr st', dec_next_r HO st = Some (r, st1) -> dec_polls_r HO st1 tr st' -> dec_polls_r HO st (r :: tr) st') /\
  rd_polls_r HO r0 [] r0 /\
  (forall st r st1 tr st', rd_next_r HO st = Some (r, st1) -> rd_polls_r HO st1 tr st' -> rd_polls_r HO st (r :: tr) st').
Proof. exact polls_r_def. Qed.
Print Assumptions C01_polls_r_def.

(* polling again after an io error of the transport is not harmless either: on the HONEST stream behind a
   reader whose first read call fails (kind Other) both decoders then report a spurious leaf hash mismatch
   and panic on the next call *)
Theorem C01_repoll_after_io_error_refuted :
  (exists HO, hash_ok HO /\
   exists (data : bytes HO) (bs : N) (q : ranges) (rd : reader HO) tr st (c : N),
     (blen HO data <= 2 ^ 63)%N /\ (bs <= 10)%N /\ wf_ranges q = true /\
     rd_rest HO rd = flat HO (honest HO data bs q) /\
     dec_polls_r HO (dec_new_r HO (root_hash HO data) (mkTree (blen HO data) bs) rd q) tr st /\
     tr = [Err (DIo KOther); Err (DLeafHashMismatch c); Panic]) /\
  (exists HO, hash_ok HO /\
   exists (data : bytes HO) (bs : N) (q : ranges) (rd : reader HO) tr st (c : N),
     (blen HO data <= 2 ^ 63)%N /\ (bs <= 10)%N /\ wf_ranges q = true /\
     rd_rest HO rd = flat HO (honest HO data bs q) /\
     rd_polls_r HO (rd_new_r HO (root_hash HO data) q (mkTree (blen HO data) bs) rd) tr st /\
     tr = [Err (DIo KOther); Err (DLeafHashMismatch c); Panic]).
Proof. exact repoll_after_io_error. Qed.
Print Assumptions C01_repoll_after_io_error_refuted.

(* soft r: Ok or a leaf hash mismatch; notfound e: one of the two not-found errors *)
Theorem C01_soft_notfound_def : forall HO (r : res dec_err (item HO)) (e : dec_err),
  (soft HO r <-> ((exists it, r = Ok it) \/ (exists c, r = Err (DLeafHashMismatch c)))) /\
  (notfound e <-> ((exists n, e = DParentNotFound n) \/ (exists c, e = DLeafNotFound c))).
Proof. exact soft_notfound_def. Qed.
Print Assumptions C01_soft_notfound_def.

(* the hypotheses of C01_repoll_sound / C01_repoll_sound_tree are satisfiable in non-trivial ways: polls that
   go on after a leaf hash mismatch and yield the genuine next leaf; a not-found error followed by errors *)
Theorem C01_repoll_nonvacuous :
  exists HO, hash_ok HO /\
  exists (data : bytes HO) (bs : N) (q : ranges),
    (blen HO data <= 2 ^ 63)%N /\ (bs <= 10)%N /\ wf_ranges q = true /\
    (exists stream tr st it0 it2 c,
       dec_polls HO (dec_new HO (root_hash HO data) (mkTree (blen HO data) bs) stream q) tr st /\
       tr = [Ok it0; Err (DLeafHashMismatch c); Ok it2] /\
       (forall j r, (j < 2)%nat -> nth_error tr j = Some r -> soft HO r) /\
       nth_error (honest HO data bs q) 2 = Some it2) /\
    (exists stream tr st it0 it2 c,
       rd_polls HO (rd_new HO (root_hash HO data) q (mkTree (blen HO data) bs) stream) tr st /\
       tr = [Ok it0; Err (DLeafHashMismatch c); Ok it2] /\
       (forall j r, (j < 2)%nat -> nth_error tr j = Some r -> soft HO r)) /\
    (exists stream tr st it0 c c',
       dec_polls HO (dec_new HO (root_hash HO data) (mkTree (blen HO data) bs) stream q) tr st /\
       tr = [Ok it0; Err (DLeafNotFound c); Err (DLeafNotFound c')] /\ notfound (DLeafNotFound c)) /\
    (exists stream tr st it0 c c',
       rd_polls HO (rd_new HO (root_hash HO data) q (mkTree (blen HO data) bs) stream) tr st /\
       tr = [Ok it0; Err (DLeafNotFound c); Err (DLeafNotFound c')] /\ notfound (DLeafNotFound c)).
Proof. exact polls_nonvacuous. Qed.
Print Assumptions C01_repoll_nonvacuous.

Theorem C01_repoll_tree_nonvacuous :
  exists HO, hash_ok HO /\ exists T : ptree HO,
    consistent HO T /\ leaves_ok HO T /\ tail_ok (plan_of HO T) /\ length (plan_of HO T) = 3%nat.
Proof. exact polls_tree_nonvacuous. Qed.
Print Assumptions C01_repoll_tree_nonvacuous.

(* ---- the end-to-end theorems B without the side condition q <> [] ---- *)
Theorem C01_e2e_sync_any_query : forall HO, hash_ok HO ->
  forall (data : bytes HO) (bs : N) (q : ranges),
  (blen HO data <= 2 ^ 63)%N -> (bs <= 10)%N -> wf_ranges q = true ->
  forall (stream : bytes HO) ys o st,
  dec_run HO (dec_new HO (root_hash HO data) (mkTree (blen HO data) bs) stream q) = (ys, o, st) ->
  is_prefix ys (honest HO data bs q) /\
  (o = Finished -> ys = honest HO data bs q /\ stream = flat HO (honest HO data bs q) ++ d_enc HO st) /\
  (forall e, o = Failed e ->
     ~ is_prefix (flat HO (firstn (length ys + 1) (honest HO data bs q))) stream) /\
  o <> Panicked /\ o <> OutOfFuel.
Proof. exact e2e_sync_any. Qed.
Print Assumptions C01_e2e_sync_any_query.

Theorem C01_e2e_fsm_any_query : forall HO, hash_ok HO ->
  forall (data : bytes HO) (bs : N) (q : ranges),
  (blen HO data <= 2 ^ 63)%N -> (bs <= 10)%N -> wf_ranges q = true ->
  forall (stream : bytes HO) ys o st,
  rd_run HO (rd_new HO (root_hash HO data) q (mkTree (blen HO data) bs) stream) = (ys, o, st) ->
  is_prefix ys (honest HO data bs q) /\
  (o = Finished -> ys = honest HO data bs q /\ stream = flat HO (honest HO data bs q) ++ Fsm.r_enc HO st) /\
  (forall e, o = Failed e ->
     ~ is_prefix (flat HO (firstn (length ys + 1) (honest HO data bs q))) stream) /\
  o <> Panicked /\ o <> OutOfFuel.
Proof. exact e2e_fsm_any. Qed.
Print Assumptions C01_e2e_fsm_any_query.

Theorem C01_e2e_decode_ranges_any_query : forall HO, hash_ok HO ->
  forall (data : bytes HO) (bs : N) (q : ranges),
  (blen HO data <= 2 ^ 63)%N -> (bs <= 10)%N -> wf_ranges q = true ->
  forall (stream target : bytes HO) (ob : outboard HO),
  ob_root ob = root_hash HO data -> ob_tree ob = mkTree (blen HO data) bs ->
  (exists ys o st',
    let a := apply_items HO ys target ob in
    decode_ranges HO stream q target ob = (ranges_result (a_res HO a) o, a_target HO a, a_ob HO a, st') /\
    is_prefix ys (honest HO data bs q) /\
    (o = Finished -> ys = honest HO data bs q /\ is_prefix (flat HO (honest HO data bs q)) stream) /\
    (forall e, o = Failed e -> ~ is_prefix (flat HO (firstn (length ys + 1) (honest HO data bs q))) stream) /\
    o <> Panicked /\ o <> OutOfFuel) /\
  (exists ys o st',
    let a := apply_items HO ys target ob in
    decode_ranges_fsm HO stream q target ob = (ranges_result (a_res HO a) o, a_target HO a, a_ob HO a, st') /\
    is_prefix ys (honest HO data bs q) /\
    (o = Finished -> ys = honest HO data bs q /\ is_prefix (flat HO (honest HO data bs q)) stream) /\
    (forall e, o = Failed e -> ~ is_prefix (flat HO (firstn (length ys + 1) (honest HO data bs q))) stream) /\
    o <> Panicked /\ o <> OutOfFuel).
Proof. exact e2e_decode_ranges_any. Qed.
Print Assumptions C01_e2e_decode_ranges_any_query.

Theorem C01_e2e_decode_ranges_bytes_any_query : forall HO, hash_ok HO ->
  forall (data : bytes HO) (bs : N) (q : ranges),
  (blen HO data <= 2 ^ 63)%N -> (bs <= 10)%N -> wf_ranges q = true ->
  forall (stream target : bytes HO) (ob : outboard HO),
  ob_root ob = root_hash HO data -> ob_tree ob = mkTree (blen HO data) bs -> length target = length data ->
  forall res target' ob',
  (exists st', decode_ranges HO stream q target ob = (res, target', ob', st')) \/
  (exists st', decode_ranges_fsm HO stream q target ob = (res, target', ob', st')) ->
  length target' = length data /\
  (forall c, (c < nchunks (blen HO data))%N ->
     chunk_bytes HO target' c (c + 1) = chunk_bytes HO target c (c + 1) \/
     (sel q (blen HO data) c = true /\ chunk_bytes HO target' c (c + 1) = chunk_bytes HO data c (c + 1))) /\
  (res = Ok tt -> forall c, (c < nchunks (blen HO data))%N ->
     chunk_bytes HO target' c (c + 1) =
     if sel q (blen HO data) c then chunk_bytes HO data c (c + 1) else chunk_bytes HO target c (c + 1)).
Proof. exact e2e_decode_ranges_bytes_any. Qed.
Print Assumptions C01_e2e_decode_ranges_bytes_any_query.

(* ---- every byte written is the blob's, for a target of ANY length (proofs in Proofs/GapTarget.v) ----
   pad HO n t = t cut / zero-extended to exactly n bytes (positioned writes past the end of a Vec zero-extend it) *)
From BaoV Require Import Proofs.GapTarget.

Theorem C01_pad_def : forall HO n (t : bytes HO),
  pad HO n t = firstn n (t ++ zeros HO (n - length t)) /\ length (pad HO n t) = n /\
  (length t = n -> pad HO n t = t) /\
  forall i, nth_error (pad HO n t) i =
    if (i <? n)%nat then (if (i <? length t)%nat then nth_error t i else Some (bzero HO)) else None.
Proof. exact pad_def. Qed.
Print Assumptions C01_pad_def.

(* C01_e2e_decode_ranges_bytes without the hypothesis length target = length data (and for every well-formed
   query): whatever the stream and the result, the drivers touch nothing from the blob's length on, never shrink
   the target, and below the blob's length every chunk of the (padded) result is either the (padded) old chunk or
   (selected and) the blob's chunk; on Ok exactly the selected chunks are the blob's *)
Theorem C01_e2e_decode_ranges_bytes_any_target : forall HO, hash_ok HO ->
  forall (data : bytes HO) (bs : N) (q : ranges),
  (blen HO data <= 2 ^ 63)%N -> (bs <= 10)%N -> wf_ranges q = true ->
  forall (stream target : bytes HO) (ob : outboard HO),
  ob_root ob = root_hash HO data -> ob_tree ob = mkTree (blen HO data) bs ->
  forall res target' ob',
  (exists st', decode_ranges HO stream q target ob = (res, target', ob', st')) \/
  (exists st', decode_ranges_fsm HO stream q target ob = (res, target', ob', st')) ->
  let n := length data in
  skipn n target' = skipn n target /\
  firstn (length target') (pad HO n target') = firstn n target' /\
  (length target <= length target')%nat /\
  (forall c, (c < nchunks (blen HO data))%N ->
     chunk_bytes HO (pad HO n target') c (c + 1) = chunk_bytes HO (pad HO n target) c (c + 1) \/
     (sel q (blen HO data) c = true /\
      chunk_bytes HO (pad HO n target') c (c + 1) = chunk_bytes HO data c (c + 1))) /\
  (res = Ok tt -> forall c, (c < nchunks (blen HO data))%N ->
     chunk_bytes HO (pad HO n target') c (c + 1) =
     if sel q (blen HO data) c then chunk_bytes HO data c (c + 1)
     else chunk_bytes HO (pad HO n target) c (c + 1)).
Proof. exact e2e_decode_ranges_bytes_any_target. Qed.
Print Assumptions C01_e2e_decode_ranges_bytes_any_target.

(* ---- every hash pair handed to the outboard is the blob's pair of its node (proofs in Proofs/GapPairs.v) ----
   true_pair HO data nd (Spec/EncSpec.v) = the chaining values of the two children of node nd in the blob's tree *)
From BaoV Require Import Proofs.GapPairs.

Theorem C01_honest_pairs_true : forall HO (data : bytes HO) (bs : N) (q : ranges) nd l r,
  In (IParent nd l r) (honest HO data bs q) -> (l, r) = true_pair HO data nd.
Proof. exact honest_pairs_true. Qed.
Print Assumptions C01_honest_pairs_true.

(* both drivers, any stream, any target, any outboard carrying the blob's root and tree, any well-formed query:
   the returned target and outboard are the old ones with a list ys of items applied (apply_items: leaves written,
   parents saved, in order) in which every parent carries the true pair of its node and every leaf carries the
   bytes of a run of chunks of the blob at their offset *)
Theorem C01_e2e_decode_ranges_pairs : forall HO, hash_ok HO ->
  forall (data : bytes HO) (bs : N) (q : ranges),
  (blen HO data <= 2 ^ 63)%N -> (bs <= 10)%N -> wf_ranges q = true ->
  forall (stream target : bytes HO) (ob : outboard HO),
  ob_root ob = root_hash HO data -> ob_tree ob = mkTree (blen HO data) bs ->
  forall res target' ob',
  (exists st', decode_ranges HO stream q target ob = (res, target', ob', st')) \/
  (exists st', decode_ranges_fsm HO stream q target ob = (res, target', ob', st')) ->
  exists ys, let a := apply_items HO ys target ob in
    target' = a_target HO a /\ ob' = a_ob HO a /\
    (forall nd l r, In (IParent nd l r) ys -> (l, r) = true_pair HO data nd) /\
    (forall off d, In (ILeaf off d) ys ->
       exists s e, (off = s * 1024)%N /\ (s < e)%N /\ (e <= nchunks (blen HO data))%N /\ d = chunk_bytes HO data s e).
Proof. exact e2e_decode_ranges_pairs. Qed.
Print Assumptions C01_e2e_decode_ranges_pairs.
