(* C01 statements; proofs in Proofs/Dec*.v. *)
From BaoV Require Import Model.Fsm Spec.EncSpec Spec.HashAssm Spec.PTree.
From Coq Require Import Arith.
From BaoV Require Import Proofs.DecLoop Proofs.DecHash Proofs.DecForest Proofs.DecConst Proofs.DecRanges Proofs.DecTheorems Proofs.DecWitness.

(* ---- Part 1: the loops, and the decoders as folds over the plan list ---- *)

(* an iterator that ends within n < 2^64 steps is unrolled by run_iter *)
Theorem C01_run_iter_cons : forall (St A : Type) (next : St -> option (A * St)) n st x st',
  next st = Some (x, st') -> ends_within next st n -> (n < 2 ^ LOOP_DEPTH)%nat ->
  run_iter next st = x :: run_iter next st' /\ exists n', n = S n' /\ ends_within next st' n'.
Proof. exact @run_iter_cons. Qed.
Print Assumptions C01_run_iter_cons.

Theorem C01_run_iter_nil : forall (St A : Type) (next : St -> option (A * St)) st,
  next st = None -> run_iter next st = [].
Proof. exact @run_iter_nil. Qed.
Print Assumptions C01_run_iter_nil.

Theorem C01_loop_bound : forall n : nat, (N.of_nat n < 2 ^ 64)%N -> (n < 2 ^ LOOP_DEPTH)%nat.
Proof. exact loop_bound_of_N. Qed.
Print Assumptions C01_loop_bound.

(* dec_run is dec_items_sync over the plan the iterator yields (the iterator does not see the stream) *)
Theorem C01_dec_run_refines : forall HO n it stk enc,
  ends_within response_next it n -> (N.of_nat n < 2 ^ 64)%N ->
  let r := dec_items_sync HO (run_iter response_next it) stk enc in
  dec_run HO (mkD HO it stk enc) =
  (r_items HO r, r_outcome HO r,
   mkD HO (iter_skip response_next (consumed HO r) it) (r_stack HO r) (r_enc HO r)).
Proof. exact dec_run_refines. Qed.
Print Assumptions C01_dec_run_refines.

Theorem C01_rd_run_refines : forall HO n it stk enc root,
  ends_within response_next it n -> (N.of_nat n < 2 ^ 64)%N ->
  let r := dec_items_fsm HO (run_iter response_next it) stk enc in
  rd_run HO (mkR HO it stk enc root) =
  (r_items HO r, r_outcome HO r,
   mkR HO (iter_skip response_next (consumed HO r) it) (r_stack HO r) (r_enc HO r) root).
Proof. exact rd_run_refines. Qed.
Print Assumptions C01_rd_run_refines.

(* with a plan iterator that yields plan_of T, dec_run / rd_run are the plan decoders: every theorem
   below and in C09 about dec_items_sync / dec_items_fsm transfers to them *)
Theorem C01_sync_run_as_plan : forall HO (T : ptree HO) (stream : bytes HO) it n ys o st',
  run_iter response_next it = plan_of HO T ->
  ends_within response_next it n -> (N.of_nat n < 2 ^ 64)%N ->
  dec_run HO (mkD HO it [cv_of HO T] stream) = (ys, o, st') ->
  let r := dec_items_sync HO (plan_of HO T) [cv_of HO T] stream in
  ys = r_items HO r /\ o = r_outcome HO r /\ d_enc HO st' = r_enc HO r /\ d_stack HO st' = r_stack HO r.
Proof. exact sync_run_as_plan. Qed.
Print Assumptions C01_sync_run_as_plan.

Theorem C01_fsm_run_as_plan : forall HO (T : ptree HO) (stream : bytes HO) it n root ys o st',
  run_iter response_next it = plan_of HO T ->
  ends_within response_next it n -> (N.of_nat n < 2 ^ 64)%N ->
  rd_run HO (mkR HO it [cv_of HO T] stream root) = (ys, o, st') ->
  let r := dec_items_fsm HO (plan_of HO T) [cv_of HO T] stream in
  ys = r_items HO r /\ o = r_outcome HO r /\ Fsm.r_enc HO st' = r_enc HO r /\
  Fsm.r_stack HO st' = r_stack HO r /\ r_root HO st' = root.
Proof. exact fsm_run_as_plan. Qed.
Print Assumptions C01_fsm_run_as_plan.

(* ---- Part 2(a): soundness, for every stream ---- *)
Theorem C01_sync_sound : forall HO, hash_ok HO ->
  forall (T : ptree HO) (stream : bytes HO), consistent HO T -> leaves_ok HO T ->
  let r := dec_items_sync HO (plan_of HO T) [cv_of HO T] stream in
  let ys := r_items HO r in let o := r_outcome HO r in
  is_prefix ys (items_of HO T) /\
  (o = Finished -> ys = items_of HO T /\ stream = flat_items HO (items_of HO T) ++ r_enc HO r) /\
  (forall e, o = Failed e ->
     ~ is_prefix (flat_items HO (firstn (length ys + 1) (items_of HO T))) stream) /\
  o <> Panicked /\ o <> OutOfFuel.
Proof. exact sync_sound. Qed.
Print Assumptions C01_sync_sound.

Theorem C01_fsm_sound : forall HO, hash_ok HO ->
  forall (T : ptree HO) (stream : bytes HO), consistent HO T -> leaves_ok HO T ->
  let r := dec_items_fsm HO (plan_of HO T) [cv_of HO T] stream in
  let ys := r_items HO r in let o := r_outcome HO r in
  is_prefix ys (items_of HO T) /\
  (o = Finished -> ys = items_of HO T /\ stream = flat_items HO (items_of HO T) ++ r_enc HO r) /\
  (forall e, o = Failed e ->
     ~ is_prefix (flat_items HO (firstn (length ys + 1) (items_of HO T))) stream) /\
  o <> Panicked /\ o <> OutOfFuel.
Proof. exact fsm_sound. Qed.
Print Assumptions C01_fsm_sound.

(* the same for the state machines dec_run / rd_run, whenever the plan iterator yields plan_of T *)
Theorem C01_sync_sound_run : forall HO, hash_ok HO ->
  forall (T : ptree HO) (stream : bytes HO) it n ys o st',
  consistent HO T -> leaves_ok HO T ->
  run_iter response_next it = plan_of HO T ->
  ends_within response_next it n -> (N.of_nat n < 2 ^ 64)%N ->
  dec_run HO (mkD HO it [cv_of HO T] stream) = (ys, o, st') ->
  is_prefix ys (items_of HO T) /\
  (o = Finished -> ys = items_of HO T /\ stream = flat_items HO (items_of HO T) ++ d_enc HO st') /\
  (forall e, o = Failed e ->
     ~ is_prefix (flat_items HO (firstn (length ys + 1) (items_of HO T))) stream) /\
  o <> Panicked /\ o <> OutOfFuel.
Proof. exact sync_sound_run. Qed.
Print Assumptions C01_sync_sound_run.

Theorem C01_fsm_sound_run : forall HO, hash_ok HO ->
  forall (T : ptree HO) (stream : bytes HO) it n root ys o st',
  consistent HO T -> leaves_ok HO T ->
  run_iter response_next it = plan_of HO T ->
  ends_within response_next it n -> (N.of_nat n < 2 ^ 64)%N ->
  rd_run HO (mkR HO it [cv_of HO T] stream root) = (ys, o, st') ->
  is_prefix ys (items_of HO T) /\
  (o = Finished -> ys = items_of HO T /\ stream = flat_items HO (items_of HO T) ++ Fsm.r_enc HO st') /\
  (forall e, o = Failed e ->
     ~ is_prefix (flat_items HO (firstn (length ys + 1) (items_of HO T))) stream) /\
  o <> Panicked /\ o <> OutOfFuel.
Proof. exact fsm_sound_run. Qed.
Print Assumptions C01_fsm_sound_run.

(* ---- Part 2(c): completeness over a plan tree (C02_complete_over_tree) ---- *)
Theorem C01_complete : forall HO, hash_ok HO ->
  forall (T : ptree HO) (rest : bytes HO), consistent HO T -> leaves_ok HO T ->
  let stream := flat_items HO (items_of HO T) ++ rest in
  let r1 := dec_items_sync HO (plan_of HO T) [cv_of HO T] stream in
  let r2 := dec_items_fsm HO (plan_of HO T) [cv_of HO T] stream in
  (r_items HO r1 = items_of HO T /\ r_outcome HO r1 = Finished /\ r_enc HO r1 = rest) /\
  (r_items HO r2 = items_of HO T /\ r_outcome HO r2 = Finished /\ r_enc HO r2 = rest).
Proof. exact both_complete. Qed.
Print Assumptions C01_complete.

(* ---- Part 2(d): decode_ranges writes / saves exactly what the decoder yields ---- *)
Theorem C01_decode_ranges_sound : forall HO n encoded q target ob ys o stf,
  ends_within response_next (response_new (ob_tree ob) (truncate_ranges q (tsize (ob_tree ob)))) n ->
  (N.of_nat n < 2 ^ 64)%N ->
  dec_run HO (dec_new HO (ob_root ob) (ob_tree ob) encoded q) = (ys, o, stf) ->
  let a := apply_items HO ys target ob in
  exists st', decode_ranges HO encoded q target ob =
              (ranges_result (a_res HO a) o, a_target HO a, a_ob HO a, st').
Proof. exact decode_ranges_sound. Qed.
Print Assumptions C01_decode_ranges_sound.

Theorem C01_decode_ranges_fsm_sound : forall HO n encoded q target ob ys o stf,
  ends_within response_next (response_new (ob_tree ob) (truncate_ranges_owned q (tsize (ob_tree ob)))) n ->
  (N.of_nat n < 2 ^ 64)%N ->
  rd_run HO (rd_new HO (ob_root ob) q (ob_tree ob) encoded) = (ys, o, stf) ->
  let a := apply_items HO ys target ob in
  exists st', decode_ranges_fsm HO encoded q target ob =
              (ranges_result (a_res HO a) o, a_target HO a, a_ob HO a, st').
Proof. exact decode_ranges_fsm_sound. Qed.
Print Assumptions C01_decode_ranges_fsm_sound.

(* apply_items: the fold over the yielded items *)
Theorem C01_apply_items_fold : forall HO (target : bytes HO) (ob : outboard HO),
  apply_items HO [] target ob = (SOk, target, ob) /\
  (forall off d ys, apply_items HO (ILeaf off d :: ys) target ob
                    = apply_items HO ys (write_at HO target off d) ob) /\
  (forall node l r ys, apply_items HO (IParent node l r :: ys) target ob =
     match save HO ob node l r with
     | Ok ob' => apply_items HO ys target ob'
     | Err k => (SErr k, target, ob)
     | Panic => (SPanic, target, ob)
     end).
Proof. exact apply_items_fold. Qed.
Print Assumptions C01_apply_items_fold.

Theorem C01_ranges_result : forall sr o,
  (ranges_result sr o = Ok tt <-> sr = SOk /\ o = Finished) /\
  (forall e, ranges_result SOk (Failed e) = Err e) /\
  (forall k, ranges_result (SErr k) o = Err (DIo k)).
Proof. exact ranges_result_cases. Qed.
Print Assumptions C01_ranges_result.

(* the hash assumptions are satisfiable (free term algebra), so none of the above is vacuous *)
Theorem C01_hash_ok_inhabited : exists HO, hash_ok HO.
Proof. exact hash_ok_inhabited. Qed.
Print Assumptions C01_hash_ok_inhabited.

(* ======== End-to-end composition (proofs in Proofs/E2EGlue.v, E2EDecode.v, E2ERanges.v) ========
   The interface hypotheses of Parts 1-2 are discharged: the plan tree is spec_tree HO data bs q
   (Props/Bridge.v), the plan iterator yields its plan (Props/C15.v) and ends within its length < 2^64. *)
From BaoV Require Import Spec.RangeSpec Spec.PlanSpec Proofs.BridgeLeaves Proofs.E2EGlue Proofs.E2EDecode Proofs.E2ERanges.

(* A. the missing glue: the response iterator of a well-formed query is exhausted after exactly the items
   of the recursive plan, fewer than 2^64 *)
Theorem C01_response_ends_within : forall (size bs : N) (q : ranges),
  (size <= 2 ^ 63)%N -> (bs <= 10)%N -> wf_ranges q = true ->
  let n := length (pre_plan size 0 bs q) in
  ends_within response_next (response_new (mkTree size bs) q) n /\ (N.of_nat n < 2 ^ 64)%N.
Proof. exact response_ends_within. Qed.
Print Assumptions C01_response_ends_within.

(* flat (Spec/EncSpec.v) and flat_items (Spec/PTree.v) are the same function *)
Theorem C01_flat_is_flat_items : forall HO (l : list (item HO)), flat HO l = flat_items HO l.
Proof. exact flat_flat_items. Qed.
Print Assumptions C01_flat_is_flat_items.

(* B. the decoders set up for (root hash of the blob, tree of the blob, q), on EVERY stream:
   only a prefix of the honest encoding is ever yielded; Finished means all of it was yielded and the
   stream starts with the honest bytes; an error means the stream departs from the honest bytes inside
   the next item; no panic, no fuel exhaustion *)
Theorem C01_e2e_sync : forall HO, hash_ok HO ->
  forall (data : bytes HO) (bs : N) (q : ranges),
  (blen HO data <= 2 ^ 63)%N -> (bs <= 10)%N -> wf_ranges q = true -> q <> [] ->
  forall (stream : bytes HO) ys o st,
  dec_run HO (dec_new HO (root_hash HO data) (mkTree (blen HO data) bs) stream q) = (ys, o, st) ->
  is_prefix ys (honest HO data bs q) /\
  (o = Finished -> ys = honest HO data bs q /\ stream = flat HO (honest HO data bs q) ++ d_enc HO st) /\
  (forall e, o = Failed e ->
     ~ is_prefix (flat HO (firstn (length ys + 1) (honest HO data bs q))) stream) /\
  o <> Panicked /\ o <> OutOfFuel.
Proof. exact e2e_sync. Qed.
Print Assumptions C01_e2e_sync.

Theorem C01_e2e_fsm : forall HO, hash_ok HO ->
  forall (data : bytes HO) (bs : N) (q : ranges),
  (blen HO data <= 2 ^ 63)%N -> (bs <= 10)%N -> wf_ranges q = true -> q <> [] ->
  forall (stream : bytes HO) ys o st,
  rd_run HO (rd_new HO (root_hash HO data) q (mkTree (blen HO data) bs) stream) = (ys, o, st) ->
  is_prefix ys (honest HO data bs q) /\
  (o = Finished -> ys = honest HO data bs q /\ stream = flat HO (honest HO data bs q) ++ Fsm.r_enc HO st) /\
  (forall e, o = Failed e ->
     ~ is_prefix (flat HO (firstn (length ys + 1) (honest HO data bs q))) stream) /\
  o <> Panicked /\ o <> OutOfFuel.
Proof. exact e2e_fsm. Qed.
Print Assumptions C01_e2e_fsm.

(* decode_ranges on EVERY stream, for any target and any outboard carrying the blob's root and tree:
   the items applied (leaves written, parents saved, apply_items) are a prefix ys of the honest encoding;
   the result is ranges_result of the saves and of the decoder's outcome o *)
Theorem C01_e2e_decode_ranges : forall HO, hash_ok HO ->
  forall (data : bytes HO) (bs : N) (q : ranges),
  (blen HO data <= 2 ^ 63)%N -> (bs <= 10)%N -> wf_ranges q = true -> q <> [] ->
  forall (stream target : bytes HO) (ob : outboard HO),
  ob_root ob = root_hash HO data -> ob_tree ob = mkTree (blen HO data) bs ->
  exists ys o st',
    let a := apply_items HO ys target ob in
    decode_ranges HO stream q target ob = (ranges_result (a_res HO a) o, a_target HO a, a_ob HO a, st') /\
    is_prefix ys (honest HO data bs q) /\
    (o = Finished -> ys = honest HO data bs q /\ is_prefix (flat HO (honest HO data bs q)) stream) /\
    (forall e, o = Failed e ->
       ~ is_prefix (flat HO (firstn (length ys + 1) (honest HO data bs q))) stream) /\
    o <> Panicked /\ o <> OutOfFuel.
Proof. exact e2e_decode_ranges. Qed.
Print Assumptions C01_e2e_decode_ranges.

Theorem C01_e2e_decode_ranges_fsm : forall HO, hash_ok HO ->
  forall (data : bytes HO) (bs : N) (q : ranges),
  (blen HO data <= 2 ^ 63)%N -> (bs <= 10)%N -> wf_ranges q = true -> q <> [] ->
  forall (stream target : bytes HO) (ob : outboard HO),
  ob_root ob = root_hash HO data -> ob_tree ob = mkTree (blen HO data) bs ->
  exists ys o st',
    let a := apply_items HO ys target ob in
    decode_ranges_fsm HO stream q target ob = (ranges_result (a_res HO a) o, a_target HO a, a_ob HO a, st') /\
    is_prefix ys (honest HO data bs q) /\
    (o = Finished -> ys = honest HO data bs q /\ is_prefix (flat HO (honest HO data bs q)) stream) /\
    (forall e, o = Failed e ->
       ~ is_prefix (flat HO (firstn (length ys + 1) (honest HO data bs q))) stream) /\
    o <> Panicked /\ o <> OutOfFuel.
Proof. exact e2e_decode_ranges_fsm. Qed.
Print Assumptions C01_e2e_decode_ranges_fsm.

(* the returned target is the old target with the leaves of a prefix zs of the honest encoding written
   into it (write_leaves, Proofs/BridgeLeaves.v; every such leaf is ILeaf (s*1024) (chunk_bytes data s e)
   for a run [s,e) of selected chunks: Bridge_leaf_items); Ok means all honest leaves were written *)
Theorem C01_e2e_decode_ranges_target : forall HO, hash_ok HO ->
  forall (data : bytes HO) (bs : N) (q : ranges),
  (blen HO data <= 2 ^ 63)%N -> (bs <= 10)%N -> wf_ranges q = true -> q <> [] ->
  forall (stream target : bytes HO) (ob : outboard HO) res target' ob' st',
  ob_root ob = root_hash HO data -> ob_tree ob = mkTree (blen HO data) bs ->
  decode_ranges HO stream q target ob = (res, target', ob', st') ->
  exists zs, is_prefix zs (honest HO data bs q) /\ target' = write_leaves HO target zs /\
             (res = Ok tt -> zs = honest HO data bs q /\ is_prefix (flat HO (honest HO data bs q)) stream).
Proof. exact e2e_decode_ranges_target. Qed.
Print Assumptions C01_e2e_decode_ranges_target.

Theorem C01_e2e_decode_ranges_fsm_target : forall HO, hash_ok HO ->
  forall (data : bytes HO) (bs : N) (q : ranges),
  (blen HO data <= 2 ^ 63)%N -> (bs <= 10)%N -> wf_ranges q = true -> q <> [] ->
  forall (stream target : bytes HO) (ob : outboard HO) res target' ob' st',
  ob_root ob = root_hash HO data -> ob_tree ob = mkTree (blen HO data) bs ->
  decode_ranges_fsm HO stream q target ob = (res, target', ob', st') ->
  exists zs, is_prefix zs (honest HO data bs q) /\ target' = write_leaves HO target zs /\
             (res = Ok tt -> zs = honest HO data bs q /\ is_prefix (flat HO (honest HO data bs q)) stream).
Proof. exact e2e_decode_ranges_fsm_target. Qed.
Print Assumptions C01_e2e_decode_ranges_fsm_target.

(* every byte written is the blob's, at the right offset: for a target of the blob's length, whatever the
   stream and the result, every chunk of the returned target is either untouched or (selected and) the
   blob's chunk; on Ok every selected chunk is the blob's and every other chunk is untouched *)
Theorem C01_e2e_decode_ranges_bytes : forall HO, hash_ok HO ->
  forall (data : bytes HO) (bs : N) (q : ranges),
  (blen HO data <= 2 ^ 63)%N -> (bs <= 10)%N -> wf_ranges q = true -> q <> [] ->
  forall (stream target : bytes HO) (ob : outboard HO) res target' ob' st',
  ob_root ob = root_hash HO data -> ob_tree ob = mkTree (blen HO data) bs ->
  length target = length data ->
  decode_ranges HO stream q target ob = (res, target', ob', st') ->
  length target' = length data /\
  (forall c, (c < nchunks (blen HO data))%N ->
     chunk_bytes HO target' c (c + 1) = chunk_bytes HO target c (c + 1) \/
     (sel q (blen HO data) c = true /\ chunk_bytes HO target' c (c + 1) = chunk_bytes HO data c (c + 1))) /\
  (res = Ok tt -> forall c, (c < nchunks (blen HO data))%N ->
     chunk_bytes HO target' c (c + 1) =
     if sel q (blen HO data) c then chunk_bytes HO data c (c + 1) else chunk_bytes HO target c (c + 1)).
Proof. exact e2e_decode_ranges_bytes. Qed.
Print Assumptions C01_e2e_decode_ranges_bytes.

Theorem C01_e2e_decode_ranges_fsm_bytes : forall HO, hash_ok HO ->
  forall (data : bytes HO) (bs : N) (q : ranges),
  (blen HO data <= 2 ^ 63)%N -> (bs <= 10)%N -> wf_ranges q = true -> q <> [] ->
  forall (stream target : bytes HO) (ob : outboard HO) res target' ob' st',
  ob_root ob = root_hash HO data -> ob_tree ob = mkTree (blen HO data) bs ->
  length target = length data ->
  decode_ranges_fsm HO stream q target ob = (res, target', ob', st') ->
  length target' = length data /\
  (forall c, (c < nchunks (blen HO data))%N ->
     chunk_bytes HO target' c (c + 1) = chunk_bytes HO target c (c + 1) \/
     (sel q (blen HO data) c = true /\ chunk_bytes HO target' c (c + 1) = chunk_bytes HO data c (c + 1))) /\
  (res = Ok tt -> forall c, (c < nchunks (blen HO data))%N ->
     chunk_bytes HO target' c (c + 1) =
     if sel q (blen HO data) c then chunk_bytes HO data c (c + 1) else chunk_bytes HO target c (c + 1)).
Proof. exact e2e_decode_ranges_fsm_bytes. Qed.
Print Assumptions C01_e2e_decode_ranges_fsm_bytes.

(* what the leaves of any prefix of the honest encoding do to a target of the blob's length *)
Theorem C01_e2e_prefix_writes : forall HO (data : bytes HO) (bs : N) (q : ranges),
  (blen HO data <= 2 ^ 63)%N ->
  forall (target : bytes HO) zs, length target = length data -> is_prefix zs (honest HO data bs q) ->
  let out := write_leaves HO target zs in
  length out = length data /\
  forall c, (c < nchunks (blen HO data))%N ->
    chunk_bytes HO out c (c + 1) = chunk_bytes HO target c (c + 1) \/
    (sel q (blen HO data) c = true /\ chunk_bytes HO out c (c + 1) = chunk_bytes HO data c (c + 1)).
Proof. exact e2e_prefix_writes. Qed.
Print Assumptions C01_e2e_prefix_writes.

(* ======== Gap audit: polls that continue after an error; every well-formed query (q = [] included) ========
   Proofs in Proofs/GapPolls.v, GapLenient.v, GapPollsE2E.v, GapWitness.v, GapDrivers.v, GapStatements.v. *)
From BaoV Require Import Model.IOSched.
From BaoV Require Import Proofs.GapPolls Proofs.GapLenient Proofs.GapPollsE2E Proofs.GapWitness Proofs.GapDrivers
                         Proofs.GapStatements Proofs.GapNonvac.

(* dec_polls st0 tr st / rd_polls st0 tr st: st is reached from st0 by ANY sequence of calls of next, whatever
   they returned, and tr lists what the calls returned, in order *)
Theorem C01_polls_def : forall HO (st0 : dstate HO) (r0 : rstate HO),
  dec_polls HO st0 [] st0 /\
  (forall tr st r st', dec_polls HO st0 tr st -> dec_next HO st = Some (r, st') -> dec_polls HO st0 (tr ++ [r]) st') /\
  rd_polls HO r0 [] r0 /\
  (forall tr st r st', rd_polls HO r0 tr st -> rd_next HO st = RMore st' r -> rd_polls HO r0 (tr ++ [r]) st').
Proof. exact polls_def. Qed.
Print Assumptions C01_polls_def.

(* they reach exactly the states of dec_reach / rd_reach (C20_reach_def) *)
Theorem C01_polls_reach : forall HO (st0 st : dstate HO) (r0 r : rstate HO),
  (dec_reach HO st0 st <-> exists tr, dec_polls HO st0 tr st) /\
  (rd_reach HO r0 r <-> exists tr, rd_polls HO r0 tr r).
Proof. exact polls_reach. Qed.
Print Assumptions C01_polls_reach.

(* THE DECODERS OF A BLOB, POLLED IN ANY WAY, ON ANY STREAM.  Let tr be the results of any sequence of calls of
   next of either decoder set up with the blob's root hash and geometry.  As long as every earlier call returned
   Ok or a LEAF hash mismatch, the k-th call
     - hands out, if it returns Ok, exactly the k-th item of the honest encoding (no foreign item),
     - does not panic,
   and if it returns a not-found error then every later call returns an error (no item, no panic).
   (A leaf hash mismatch leaves both decoders in the state of an accepted leaf.)  Nothing of this survives a
   PARENT hash mismatch: see the three _refuted theorems below. *)
Theorem C01_repoll_sound : forall HO, hash_ok HO ->
  forall (data : bytes HO) (bs : N) (q : ranges),
  (blen HO data <= 2 ^ 63)%N -> (bs <= 10)%N -> wf_ranges q = true ->
  forall (stream : bytes HO) (tr : list (res dec_err (item HO))),
  (exists st, dec_polls HO (dec_new HO (root_hash HO data) (mkTree (blen HO data) bs) stream q) tr st) \/
  (exists st, rd_polls HO (rd_new HO (root_hash HO data) q (mkTree (blen HO data) bs) stream) tr st) ->
  forall k : nat,
    (forall j r, (j < k)%nat -> nth_error tr j = Some r ->
       (exists it, r = Ok it) \/ (exists c, r = Err (DLeafHashMismatch c))) ->
    (forall it, nth_error tr k = Some (Ok it) -> nth_error (honest HO data bs q) k = Some it) /\
    nth_error tr k <> Some Panic /\
    (forall e, nth_error tr k = Some (Err e) ->
       ((exists n, e = DParentNotFound n) \/ (exists c, e = DLeafNotFound c)) ->
       forall j r, (k < j)%nat -> nth_error tr j = Some r -> exists e', r = Err e').
Proof. exact repoll_sound. Qed.
Print Assumptions C01_repoll_sound.

(* the same over an arbitrary consistent plan tree, for the plan decoders polled through the whole plan:
   poll_list step plan stk enc = (results of polling every item of the plan in turn, final stack, unread stream) *)
Theorem C01_poll_list_def : forall HO step,
  (forall stk enc, poll_list HO step [] stk enc = ([], stk, enc)) /\
  (forall c p stk enc r stk1 enc1 rs stk2 enc2, step c stk enc = (r, stk1, enc1) ->
     poll_list HO step p stk1 enc1 = (rs, stk2, enc2) ->
     poll_list HO step (c :: p) stk enc = (r :: rs, stk2, enc2)).
Proof. exact poll_list_def. Qed.
Print Assumptions C01_poll_list_def.

(* tail_ok plan: every leaf is non-empty and a leaf shorter than a hash pair is followed by no other leaf *)
Theorem C01_tail_ok_def :
  (tail_ok [] <-> True) /\
  (forall n ir lf rt rs p, tail_ok (CParent n ir lf rt rs :: p) <-> tail_ok p) /\
  (forall s z ir rs p, tail_ok (CLeaf s z ir rs :: p) <->
     (z <> 0 /\ (z < 64 -> forall s' z' ir' rs', ~ In (CLeaf s' z' ir' rs') p) /\ tail_ok p))%N.
Proof. exact tail_ok_def. Qed.
Print Assumptions C01_tail_ok_def.

(* ... which the plan of every geometry and well-formed query satisfies (or the plan has at most one item) *)
Theorem C01_tail_ok_plan : forall size ml q, (size <= 2 ^ 63)%N -> wf_ranges q = true ->
  tail_ok (pre_plan size 0 ml q) \/ (length (pre_plan size 0 ml q) <= 1)%nat.
Proof. exact tail_ok_pre_plan. Qed.
Print Assumptions C01_tail_ok_plan.

Theorem C01_repoll_sound_tree : forall HO, hash_ok HO ->
  forall step, step = step_sync HO \/ step = step_fsm HO ->
  forall (T : ptree HO) (s : bytes HO), consistent HO T -> leaves_ok HO T ->
  forall rs stk' enc', poll_list HO step (plan_of HO T) [cv_of HO T] s = (rs, stk', enc') ->
  forall k : nat,
    (forall j r, (j < k)%nat -> nth_error rs j = Some r ->
       (exists it, r = Ok it) \/ (exists c, r = Err (DLeafHashMismatch c))) ->
    (forall it, nth_error rs k = Some (Ok it) -> nth_error (items_of HO T) k = Some it) /\
    nth_error rs k <> Some Panic /\
    (tail_ok (plan_of HO T) -> forall e, nth_error rs k = Some (Err e) ->
       ((exists n, e = DParentNotFound n) \/ (exists c, e = DLeafNotFound c)) ->
       forall j r, (k < j)%nat -> nth_error rs j = Some r -> exists e', r = Err e').
Proof. exact repoll_sound_tree. Qed.
Print Assumptions C01_repoll_sound_tree.

(* F7 (fsm), with a collision-free hash: polled again after a ParentHashMismatch the state machine hands out
   FOREIGN LEAF DATA as Ok (the children named by the rejected pair were pushed before the comparison) *)
Theorem C01_fsm_repoll_foreign_leaf_refuted :
  exists HO, hash_ok HO /\
  exists (data stream : bytes HO) (bs : N) (q : ranges) tr st (n off : N) (d : bytes HO),
    (blen HO data <= 2 ^ 63)%N /\ (bs <= 10)%N /\ wf_ranges q = true /\
    rd_polls HO (rd_new HO (root_hash HO data) q (mkTree (blen HO data) bs) stream) tr st /\
    nth_error tr 0 = Some (Err (DParentHashMismatch n)) /\
    nth_error tr 1 = Some (Ok (ILeaf off d)) /\
    nth_error (honest HO data bs q) 1 <> Some (ILeaf off d) /\
    d <> take HO (blen HO d) (drop HO off data).
Proof. exact fsm_repoll_foreign_leaf. Qed.
Print Assumptions C01_fsm_repoll_foreign_leaf_refuted.

(* F8 (sync): polled again after a ParentHashMismatch the iterator panics (stack.pop().unwrap() on an empty stack) *)
Theorem C01_sync_repoll_panics_refuted :
  exists HO, hash_ok HO /\
  exists (data stream : bytes HO) (bs : N) (q : ranges) tr st (n : N),
    (blen HO data <= 2 ^ 63)%N /\ (bs <= 10)%N /\ wf_ranges q = true /\
    dec_polls HO (dec_new HO (root_hash HO data) (mkTree (blen HO data) bs) stream q) tr st /\
    nth_error tr 0 = Some (Err (DParentHashMismatch n)) /\
    nth_error tr 1 = Some Panic.
Proof. exact sync_repoll_panics. Qed.
Print Assumptions C01_sync_repoll_panics_refuted.

(* NEW (sync): polled again after the ParentHashMismatch of an INNER node the iterator can also hand out a
   foreign PARENT item as Ok: the honest pair of another node m under the node id n' (the stale stack entry of
   m's subtree is compared with the next pair of the stream) *)
Theorem C01_sync_repoll_foreign_parent_refuted :
  exists HO, hash_ok HO /\
  exists (data stream : bytes HO) (bs : N) (q : ranges) tr st (n n' m : N) (l r : hash HO),
    (blen HO data <= 2 ^ 63)%N /\ (bs <= 10)%N /\ wf_ranges q = true /\
    dec_polls HO (dec_new HO (root_hash HO data) (mkTree (blen HO data) bs) stream q) tr st /\
    nth_error tr 1 = Some (Err (DParentHashMismatch n)) /\
    nth_error tr 2 = Some (Ok (IParent n' l r)) /\
    In (IParent m l r) (honest HO data bs q) /\ m <> n' /\
    (forall l' r', In (IParent n' l' r') (honest HO data bs q) -> l' <> l).
Proof. exact sync_repoll_foreign_parent. Qed.
Print Assumptions C01_sync_repoll_foreign_parent_refuted.

(* polls of the reader-based decoders of Model/IOSched.v *)
Theorem C01_polls_r_def : forall HO (st0 : dstate_r HO) (r0 : rstate_r HO),
  dec_polls_r HO st0 [] st0 /\
  (forall st r st1 tr st', dec_next_r HO st = Some (r, st1) -> dec_polls_r HO st1 tr st' -> dec_polls_r HO st (r :: tr) st') /\
  rd_polls_r HO r0 [] r0 /\
  (forall st r st1 tr st', rd_next_r HO st = Some (r, st1) -> rd_polls_r HO st1 tr st' -> rd_polls_r HO st (r :: tr) st').
Proof. exact polls_r_def. Qed.
Print Assumptions C01_polls_r_def.

(* polling again after an io error of the transport is not harmless either: on the HONEST stream behind a
   reader whose first read call fails (kind Other) both decoders then report a spurious leaf hash mismatch
   and panic on the next call *)
Theorem C01_repoll_after_io_error_refuted :
  (exists HO, hash_ok HO /\
   exists (data : bytes HO) (bs : N) (q : ranges) (rd : reader HO) tr st (c : N),
     (blen HO data <= 2 ^ 63)%N /\ (bs <= 10)%N /\ wf_ranges q = true /\
     rd_rest HO rd = flat HO (honest HO data bs q) /\
     dec_polls_r HO (dec_new_r HO (root_hash HO data) (mkTree (blen HO data) bs) rd q) tr st /\
     tr = [Err (DIo KOther); Err (DLeafHashMismatch c); Panic]) /\
  (exists HO, hash_ok HO /\
   exists (data : bytes HO) (bs : N) (q : ranges) (rd : reader HO) tr st (c : N),
     (blen HO data <= 2 ^ 63)%N /\ (bs <= 10)%N /\ wf_ranges q = true /\
     rd_rest HO rd = flat HO (honest HO data bs q) /\
     rd_polls_r HO (rd_new_r HO (root_hash HO data) q (mkTree (blen HO data) bs) rd) tr st /\
     tr = [Err (DIo KOther); Err (DLeafHashMismatch c); Panic]).
Proof. exact repoll_after_io_error. Qed.
Print Assumptions C01_repoll_after_io_error_refuted.

(* soft r: Ok or a leaf hash mismatch; notfound e: one of the two not-found errors *)
Theorem C01_soft_notfound_def : forall HO (r : res dec_err (item HO)) (e : dec_err),
  (soft HO r <-> ((exists it, r = Ok it) \/ (exists c, r = Err (DLeafHashMismatch c)))) /\
  (notfound e <-> ((exists n, e = DParentNotFound n) \/ (exists c, e = DLeafNotFound c))).
Proof. exact soft_notfound_def. Qed.
Print Assumptions C01_soft_notfound_def.

(* the hypotheses of C01_repoll_sound / C01_repoll_sound_tree are satisfiable in non-trivial ways: polls that
   go on after a leaf hash mismatch and yield the genuine next leaf; a not-found error followed by errors *)
Theorem C01_repoll_nonvacuous :
  exists HO, hash_ok HO /\
  exists (data : bytes HO) (bs : N) (q : ranges),
    (blen HO data <= 2 ^ 63)%N /\ (bs <= 10)%N /\ wf_ranges q = true /\
    (exists stream tr st it0 it2 c,
       dec_polls HO (dec_new HO (root_hash HO data) (mkTree (blen HO data) bs) stream q) tr st /\
       tr = [Ok it0; Err (DLeafHashMismatch c); Ok it2] /\
       (forall j r, (j < 2)%nat -> nth_error tr j = Some r -> soft HO r) /\
       nth_error (honest HO data bs q) 2 = Some it2) /\
    (exists stream tr st it0 it2 c,
       rd_polls HO (rd_new HO (root_hash HO data) q (mkTree (blen HO data) bs) stream) tr st /\
       tr = [Ok it0; Err (DLeafHashMismatch c); Ok it2] /\
       (forall j r, (j < 2)%nat -> nth_error tr j = Some r -> soft HO r)) /\
    (exists stream tr st it0 c c',
       dec_polls HO (dec_new HO (root_hash HO data) (mkTree (blen HO data) bs) stream q) tr st /\
       tr = [Ok it0; Err (DLeafNotFound c); Err (DLeafNotFound c')] /\ notfound (DLeafNotFound c)) /\
    (exists stream tr st it0 c c',
       rd_polls HO (rd_new HO (root_hash HO data) q (mkTree (blen HO data) bs) stream) tr st /\
       tr = [Ok it0; Err (DLeafNotFound c); Err (DLeafNotFound c')] /\ notfound (DLeafNotFound c)).
Proof. exact polls_nonvacuous. Qed.
Print Assumptions C01_repoll_nonvacuous.

Theorem C01_repoll_tree_nonvacuous :
  exists HO, hash_ok HO /\ exists T : ptree HO,
    consistent HO T /\ leaves_ok HO T /\ tail_ok (plan_of HO T) /\ length (plan_of HO T) = 3%nat.
Proof. exact polls_tree_nonvacuous. Qed.
Print Assumptions C01_repoll_tree_nonvacuous.

(* ---- the end-to-end theorems B without the side condition q <> [] ---- *)
Theorem C01_e2e_sync_any_query : forall HO, hash_ok HO ->
  forall (data : bytes HO) (bs : N) (q : ranges),
  (blen HO data <= 2 ^ 63)%N -> (bs <= 10)%N -> wf_ranges q = true ->
  forall (stream : bytes HO) ys o st,
  dec_run HO (dec_new HO (root_hash HO data) (mkTree (blen HO data) bs) stream q) = (ys, o, st) ->
  is_prefix ys (honest HO data bs q) /\
  (o = Finished -> ys = honest HO data bs q /\ stream = flat HO (honest HO data bs q) ++ d_enc HO st) /\
  (forall e, o = Failed e ->
     ~ is_prefix (flat HO (firstn (length ys + 1) (honest HO data bs q))) stream) /\
  o <> Panicked /\ o <> OutOfFuel.
Proof. exact e2e_sync_any. Qed.
Print Assumptions C01_e2e_sync_any_query.

Theorem C01_e2e_fsm_any_query : forall HO, hash_ok HO ->
  forall (data : bytes HO) (bs : N) (q : ranges),
  (blen HO data <= 2 ^ 63)%N -> (bs <= 10)%N -> wf_ranges q = true ->
  forall (stream : bytes HO) ys o st,
  rd_run HO (rd_new HO (root_hash HO data) q (mkTree (blen HO data) bs) stream) = (ys, o, st) ->
  is_prefix ys (honest HO data bs q) /\
  (o = Finished -> ys = honest HO data bs q /\ stream = flat HO (honest HO data bs q) ++ Fsm.r_enc HO st) /\
  (forall e, o = Failed e ->
     ~ is_prefix (flat HO (firstn (length ys + 1) (honest HO data bs q))) stream) /\
  o <> Panicked /\ o <> OutOfFuel.
Proof. exact e2e_fsm_any. Qed.
Print Assumptions C01_e2e_fsm_any_query.

Theorem C01_e2e_decode_ranges_any_query : forall HO, hash_ok HO ->
  forall (data : bytes HO) (bs : N) (q : ranges),
  (blen HO data <= 2 ^ 63)%N -> (bs <= 10)%N -> wf_ranges q = true ->
  forall (stream target : bytes HO) (ob : outboard HO),
  ob_root ob = root_hash HO data -> ob_tree ob = mkTree (blen HO data) bs ->
  (exists ys o st',
    let a := apply_items HO ys target ob in
    decode_ranges HO stream q target ob = (ranges_result (a_res HO a) o, a_target HO a, a_ob HO a, st') /\
    is_prefix ys (honest HO data bs q) /\
    (o = Finished -> ys = honest HO data bs q /\ is_prefix (flat HO (honest HO data bs q)) stream) /\
    (forall e, o = Failed e -> ~ is_prefix (flat HO (firstn (length ys + 1) (honest HO data bs q))) stream) /\
    o <> Panicked /\ o <> OutOfFuel) /\
  (exists ys o st',
    let a := apply_items HO ys target ob in
    decode_ranges_fsm HO stream q target ob = (ranges_result (a_res HO a) o, a_target HO a, a_ob HO a, st') /\
    is_prefix ys (honest HO data bs q) /\
    (o = Finished -> ys = honest HO data bs q /\ is_prefix (flat HO (honest HO data bs q)) stream) /\
    (forall e, o = Failed e -> ~ is_prefix (flat HO (firstn (length ys + 1) (honest HO data bs q))) stream) /\
    o <> Panicked /\ o <> OutOfFuel).
Proof. exact e2e_decode_ranges_any. Qed.
Print Assumptions C01_e2e_decode_ranges_any_query.

Theorem C01_e2e_decode_ranges_bytes_any_query : forall HO, hash_ok HO ->
  forall (data : bytes HO) (bs : N) (q : ranges),
  (blen HO data <= 2 ^ 63)%N -> (bs <= 10)%N -> wf_ranges q = true ->
  forall (stream target : bytes HO) (ob : outboard HO),
  ob_root ob = root_hash HO data -> ob_tree ob = mkTree (blen HO data) bs -> length target = length data ->
  forall res target' ob',
  (exists st', decode_ranges HO stream q target ob = (res, target', ob', st')) \/
  (exists st', decode_ranges_fsm HO stream q target ob = (res, target', ob', st')) ->
  length target' = length data /\
  (forall c, (c < nchunks (blen HO data))%N ->
     chunk_bytes HO target' c (c + 1) = chunk_bytes HO target c (c + 1) \/
     (sel q (blen HO data) c = true /\ chunk_bytes HO target' c (c + 1) = chunk_bytes HO data c (c + 1))) /\
  (res = Ok tt -> forall c, (c < nchunks (blen HO data))%N ->
     chunk_bytes HO target' c (c + 1) =
     if sel q (blen HO data) c then chunk_bytes HO data c (c + 1) else chunk_bytes HO target c (c + 1)).
Proof. exact e2e_decode_ranges_bytes_any. Qed.
Print Assumptions C01_e2e_decode_ranges_bytes_any_query.

(* ---- every byte written is the blob's, for a target of ANY length (proofs in Proofs/GapTarget.v) ----
   pad HO n t = t cut / zero-extended to exactly n bytes (positioned writes past the end of a Vec zero-extend it) *)
From BaoV Require Import Proofs.GapTarget.

Theorem C01_pad_def : forall HO n (t : bytes HO),
  pad HO n t = firstn n (t ++ zeros HO (n - length t)) /\ length (pad HO n t) = n /\
  (length t = n -> pad HO n t = t) /\
  forall i, nth_error (pad HO n t) i =
    if (i <? n)%nat then (if (i <? length t)%nat then nth_error t i else Some (bzero HO)) else None.
Proof. exact pad_def. Qed.
Print Assumptions C01_pad_def.

(* C01_e2e_decode_ranges_bytes without the hypothesis length target = length data (and for every well-formed
   query): whatever the stream and the result, the drivers touch nothing from the blob's length on, never shrink
   the target, and below the blob's length every chunk of the (padded) result is either the (padded) old chunk or
   (selected and) the blob's chunk; on Ok exactly the selected chunks are the blob's *)
Theorem C01_e2e_decode_ranges_bytes_any_target : forall HO, hash_ok HO ->
  forall (data : bytes HO) (bs : N) (q : ranges),
  (blen HO data <= 2 ^ 63)%N -> (bs <= 10)%N -> wf_ranges q = true ->
  forall (stream target : bytes HO) (ob : outboard HO),
  ob_root ob = root_hash HO data -> ob_tree ob = mkTree (blen HO data) bs ->
  forall res target' ob',
  (exists st', decode_ranges HO stream q target ob = (res, target', ob', st')) \/
  (exists st', decode_ranges_fsm HO stream q target ob = (res, target', ob', st')) ->
  let n := length data in
  skipn n target' = skipn n target /\
  firstn (length target') (pad HO n target') = firstn n target' /\
  (length target <= length target')%nat /\
  (forall c, (c < nchunks (blen HO data))%N ->
     chunk_bytes HO (pad HO n target') c (c + 1) = chunk_bytes HO (pad HO n target) c (c + 1) \/
     (sel q (blen HO data) c = true /\
      chunk_bytes HO (pad HO n target') c (c + 1) = chunk_bytes HO data c (c + 1))) /\
  (res = Ok tt -> forall c, (c < nchunks (blen HO data))%N ->
     chunk_bytes HO (pad HO n target') c (c + 1) =
     if sel q (blen HO data) c then chunk_bytes HO data c (c + 1)
     else chunk_bytes HO (pad HO n target) c (c + 1)).
Proof. exact e2e_decode_ranges_bytes_any_target. Qed.
Print Assumptions C01_e2e_decode_ranges_bytes_any_target.

(* ---- every hash pair handed to the outboard is the blob's pair of its node (proofs in Proofs/GapPairs.v) ----
   true_pair HO data nd (Spec/EncSpec.v) = the chaining values of the two children of node nd in the blob's tree *)
From BaoV Require Import Proofs.GapPairs.

Theorem C01_honest_pairs_true : forall HO (data : bytes HO) (bs : N) (q : ranges) nd l r,
  In (IParent nd l r) (honest HO data bs q) -> (l, r) = true_pair HO data nd.
Proof. exact honest_pairs_true. Qed.
Print Assumptions C01_honest_pairs_true.

(* both drivers, any stream, any target, any outboard carrying the blob's root and tree, any well-formed query:
   the returned target and outboard are the old ones with a list ys of items applied (apply_items: leaves written,
   parents saved, in order) in which every parent carries the true pair of its node and every leaf carries the
   bytes of a run of chunks of the blob at their offset *)
Theorem C01_e2e_decode_ranges_pairs : forall HO, hash_ok HO ->
  forall (data : bytes HO) (bs : N) (q : ranges),
  (blen HO data <= 2 ^ 63)%N -> (bs <= 10)%N -> wf_ranges q = true ->
  forall (stream target : bytes HO) (ob : outboard HO),
  ob_root ob = root_hash HO data -> ob_tree ob = mkTree (blen HO data) bs ->
  forall res target' ob',
  (exists st', decode_ranges HO stream q target ob = (res, target', ob', st')) \/
  (exists st', decode_ranges_fsm HO stream q target ob = (res, target', ob', st')) ->
  exists ys, let a := apply_items HO ys target ob in
    target' = a_target HO a /\ ob' = a_ob HO a /\
    (forall nd l r, In (IParent nd l r) ys -> (l, r) = true_pair HO data nd) /\
    (forall off d, In (ILeaf off d) ys ->
       exists s e, (off = s * 1024)%N /\ (s < e)%N /\ (e <= nchunks (blen HO data))%N /\ d = chunk_bytes HO data s e).
Proof. exact e2e_decode_ranges_pairs. Qed.
Print Assumptions C01_e2e_decode_ranges_pairs.

(* ======== Gap audit: ANY CLAIMED SIZE.  Every theorem above fixes the decoder's tree to the blob's own
   (mkTree (blen HO data) bs); the property lets the decoder be told any size.  Below the decoders / drivers are set up
   with the TRUE root hash of data, the tree mkTree size' bs of an ARBITRARY claimed size size', any block size
   (no bound on bs is needed), any well-formed query, and run on EVERY stream up to the first error.
   Proofs in Proofs/GapKInv.v, GapKRun.v, GapKTop.v. ======== *)
From BaoV Require Import Proofs.GapPairs Proofs.GapKInv Proofs.GapKRun Proofs.GapKTop.

(* same_path n' n a' b' a b: [a',b') in the tree over n' chunks and [a,b) in the tree over n chunks are reached from
   the two roots [0,n'), [0,n) by the same sequence of left / right descents (both trees split an interval at the
   largest power of two below its length).  Both are nodes of their trees (aligned, Proofs/GapPairs.v: an aligned
   power-of-two block cut at the end of the blob); for n' = n they are the same node *)
Theorem C01_same_path_def : forall n' n,
  same_path n' n 0 n' 0 n /\
  (forall a' b' a b, same_path n' n a' b' a b -> 2 <= b' - a' -> 2 <= b - a ->
     same_path n' n a' (a' + next_pow2 (b' - a') / 2) a (a + next_pow2 (b - a) / 2) /\
     same_path n' n (a' + next_pow2 (b' - a') / 2) b' (a + next_pow2 (b - a) / 2) b) /\
  (forall P : N -> N -> N -> N -> Prop,
     P 0 n' 0 n ->
     (forall a' b' a b, P a' b' a b -> 2 <= b' - a' -> 2 <= b - a ->
        P a' (a' + next_pow2 (b' - a') / 2) a (a + next_pow2 (b - a) / 2) /\
        P (a' + next_pow2 (b' - a') / 2) b' (a + next_pow2 (b - a) / 2) b) ->
     forall a' b' a b, same_path n' n a' b' a b -> P a' b' a b) /\
  (1 <= n' -> 1 <= n -> forall a' b' a b, same_path n' n a' b' a b -> aligned n' a' b' /\ aligned n a b) /\
  (n' = n -> forall a' b' a b, same_path n' n a' b' a b -> a' = a /\ b' = b).
Proof. exact same_path_def. Qed.
Print Assumptions C01_same_path_def.

(* true_item HO data size' i: what is guaranteed of an item i yielded by a decoder told the size size'.
   LEAF: it carries the bytes of the node [s,e) of the TRUE tree at the true offset s * 1024: d is the slice of the
   blob at off of d's length, inside the blob, not empty unless the blob is; the claimed node [s,e') on the same path
   starts at the same chunk and has the same byte length in the claimed geometry.
   PARENT: yielded under the id nd of the node [a',e') of the CLAIMED tree, it carries the two chaining values of the
   children of the node [a,e) of the TRUE tree on the same path, which is the true pair of the true node
   a + next_pow2 (e - a) / 2 - 1 (and this is nd itself whenever the chunk counts agree: C01_any_size_same_chunks_pairs;
   it can differ otherwise: C01_any_size_node_id_refuted) *)
Theorem C01_true_item_def : forall HO (data : bytes HO) (size' : N),
  (forall off d, true_item HO data size' (ILeaf off d) <->
     exists s e e', same_path (nchunks size') (nchunks (blen HO data)) s e' s e /\
       off = s * 1024 /\ s < e /\ e <= nchunks (blen HO data) /\
       d = chunk_bytes HO data s e /\ d = slice HO off (blen HO d) data /\
       off + blen HO d <= blen HO data /\ (blen HO data = 0 \/ 0 < blen HO d) /\
       blen HO d = span_bytes size' s e') /\
  (forall nd l r, true_item HO data size' (IParent nd l r) <->
     exists a' e' a e, same_path (nchunks size') (nchunks (blen HO data)) a' e' a e /\
       2 <= e' - a' /\ 2 <= e - a /\
       nd = a' + next_pow2 (e' - a') / 2 - 1 /\
       l = cv HO data a (a + next_pow2 (e - a) / 2) false /\
       r = cv HO data (a + next_pow2 (e - a) / 2) e false /\
       (l, r) = true_pair HO data (a + next_pow2 (e - a) / 2 - 1)).
Proof. exact true_item_def. Qed.
Print Assumptions C01_true_item_def.

(* both iterators, any claimed size, any block size, any well-formed query, EVERY stream: every item yielded before
   the outcome is a true item of the blob *)
Theorem C01_any_size_sync : forall HO, hash_ok HO ->
  forall (data : bytes HO) (size' bs : N) (q : ranges),
  size' <= 2 ^ 63 -> blen HO data <= 2 ^ 63 -> wf_ranges q = true ->
  forall (stream : bytes HO) ys o st,
  dec_run HO (dec_new HO (root_hash HO data) (mkTree size' bs) stream q) = (ys, o, st) ->
  forall i, In i ys -> true_item HO data size' i.
Proof. exact any_size_sync. Qed.
Print Assumptions C01_any_size_sync.

Theorem C01_any_size_fsm : forall HO, hash_ok HO ->
  forall (data : bytes HO) (size' bs : N) (q : ranges),
  size' <= 2 ^ 63 -> blen HO data <= 2 ^ 63 -> wf_ranges q = true ->
  forall (stream : bytes HO) ys o st,
  rd_run HO (rd_new HO (root_hash HO data) q (mkTree size' bs) stream) = (ys, o, st) ->
  forall i, In i ys -> true_item HO data size' i.
Proof. exact any_size_fsm. Qed.
Print Assumptions C01_any_size_fsm.

(* the plan decoders (any step function whose accepted steps compare the expected value and yield what they read)
   over the claimed plan, started from the true root value *)
Theorem C01_any_size_plan : forall HO, hash_ok HO ->
  forall (data data' : bytes HO) (bs : N) (q : ranges),
  blen HO data <= 2 ^ 63 -> blen HO data' <= 2 ^ 63 -> wf_ranges q = true ->
  forall step, step_ok2 HO step -> forall plan root (stream : bytes HO),
  plan = pre_plan (blen HO data') 0 bs (truncate_ranges q (blen HO data')) -> root = root_hash HO data ->
  Forall (true_item HO data (blen HO data')) (r_items HO (dec_items HO step plan [root] stream)).
Proof. exact claimed_plan_items. Qed.
Print Assumptions C01_any_size_plan.

Theorem C01_step_ok2_def : forall HO, hash_ok HO ->
  (forall step, step_ok2 HO step <->
     forall c stk enc i stk' enc', step c stk enc = (Ok i, stk', enc') ->
       match c with
       | CParent node ir lf rt _ =>
           exists l r stk0, stk = parent_cv HO l r ir :: stk0 /\ length l = 32%nat /\ length r = 32%nat /\
             stk' = (if lf then [l] else []) ++ (if rt then [r] else []) ++ stk0 /\ i = IParent node l r
       | CLeaf s size ir _ =>
           exists buf stk0, stk = hash_subtree HO s buf ir :: stk0 /\ blen HO buf = size /\ stk' = stk0 /\
             i = ILeaf (to_bytes s) buf
       end) /\
  step_ok2 HO (step_sync HO) /\ step_ok2 HO (step_fsm HO).
Proof.
  intros HO HOK. split; [intro step; reflexivity|]. split; [exact (step_sync_ok2 HO HOK)|exact (step_fsm_ok2 HO HOK)].
Qed.
Print Assumptions C01_step_ok2_def.

(* with the same NUMBER of chunks as the blob (in particular with the true size) every pair yielded is the true pair
   of the node it is yielded for *)
Theorem C01_any_size_same_chunks_pairs : forall HO, hash_ok HO ->
  forall (data : bytes HO) (size' bs : N) (q : ranges),
  size' <= 2 ^ 63 -> blen HO data <= 2 ^ 63 -> wf_ranges q = true ->
  nchunks size' = nchunks (blen HO data) ->
  forall (stream : bytes HO) ys o,
  (exists st, dec_run HO (dec_new HO (root_hash HO data) (mkTree size' bs) stream q) = (ys, o, st)) \/
  (exists st, rd_run HO (rd_new HO (root_hash HO data) q (mkTree size' bs) stream) = (ys, o, st)) ->
  forall nd l r, In (IParent nd l r) ys -> (l, r) = true_pair HO data nd.
Proof. exact any_size_same_chunks_pairs. Qed.
Print Assumptions C01_any_size_same_chunks_pairs.

(* both drivers, any target, any outboard carrying the true root hash and the CLAIMED tree: the returned target and
   outboard are the old ones with a list ys of TRUE items applied (leaves written, parents saved, in order) *)
Theorem C01_any_size_decode_ranges : forall HO, hash_ok HO ->
  forall (data : bytes HO) (size' bs : N) (q : ranges),
  size' <= 2 ^ 63 -> blen HO data <= 2 ^ 63 -> wf_ranges q = true ->
  forall (stream target : bytes HO) (ob : outboard HO),
  ob_root ob = root_hash HO data -> ob_tree ob = mkTree size' bs ->
  forall res target' ob',
  (exists st', decode_ranges HO stream q target ob = (res, target', ob', st')) \/
  (exists st', decode_ranges_fsm HO stream q target ob = (res, target', ob', st')) ->
  exists ys o, let a := apply_items HO ys target ob in
    res = ranges_result (a_res HO a) o /\ target' = a_target HO a /\ ob' = a_ob HO a /\
    forall i, In i ys -> true_item HO data size' i.
Proof. exact any_size_decode_ranges. Qed.
Print Assumptions C01_any_size_decode_ranges.

(* every byte the drivers write is the blob's, at its offset, whatever the claimed size, the stream and the target:
   nothing from the blob's length on is touched, and below it every chunk of the (padded, C01_pad_def) result is the
   (padded) old chunk or the blob's chunk *)
Theorem C01_any_size_decode_ranges_bytes : forall HO, hash_ok HO ->
  forall (data : bytes HO) (size' bs : N) (q : ranges),
  size' <= 2 ^ 63 -> blen HO data <= 2 ^ 63 -> wf_ranges q = true ->
  forall (stream target : bytes HO) (ob : outboard HO),
  ob_root ob = root_hash HO data -> ob_tree ob = mkTree size' bs ->
  forall res target' ob',
  (exists st', decode_ranges HO stream q target ob = (res, target', ob', st')) \/
  (exists st', decode_ranges_fsm HO stream q target ob = (res, target', ob', st')) ->
  let n := length data in
  skipn n target' = skipn n target /\
  (forall c, c < nchunks (blen HO data) ->
     chunk_bytes HO (pad HO n target') c (c + 1) = chunk_bytes HO (pad HO n target) c (c + 1) \/
     chunk_bytes HO (pad HO n target') c (c + 1) = chunk_bytes HO data c (c + 1)) /\
  (length target = length data ->
     length target' = length data /\
     forall c, c < nchunks (blen HO data) ->
       chunk_bytes HO target' c (c + 1) = chunk_bytes HO target c (c + 1) \/
       chunk_bytes HO target' c (c + 1) = chunk_bytes HO data c (c + 1)).
Proof. exact any_size_decode_ranges_bytes. Qed.
Print Assumptions C01_any_size_decode_ranges_bytes.

(* REFUTED as stated ("every hash pair it stores equals the corresponding pair of the true blob"): the node id under
   which a pair is yielded / saved can differ from the node of the true tree it belongs to.  Blob of three chunks,
   claimed size 2048: the root pair is yielded as IParent 0 and stored in the slot of node 0, but it is the true pair
   of node 1 of the blob and not that of node 0 (the next item is then rejected) *)
Theorem C01_any_size_node_id_refuted :
  exists HO, hash_ok HO /\
  exists (data stream : bytes HO) (size' bs : N) (q : ranges) (l r : hash HO),
    size' <= 2 ^ 63 /\ blen HO data <= 2 ^ 63 /\ bs <= 10 /\ wf_ranges q = true /\
    (exists st c, dec_run HO (dec_new HO (root_hash HO data) (mkTree size' bs) stream q)
                  = ([IParent 0 l r], Failed (DLeafHashMismatch c), st)) /\
    (exists st c, rd_run HO (rd_new HO (root_hash HO data) q (mkTree size' bs) stream)
                  = ([IParent 0 l r], Failed (DLeafHashMismatch c), st)) /\
    (l, r) = true_pair HO data 1 /\ (l, r) <> true_pair HO data 0 /\
    (let ob := mkOb PreIO (root_hash HO data) (mkTree size' bs) [] in
     ob_offset HO ob 0 = Some 0 /\
     (exists res target' ob' st', decode_ranges HO stream q [] ob = (res, target', ob', st') /\ ob_data ob' = l ++ r) /\
     (exists res target' ob' st', decode_ranges_fsm HO stream q [] ob = (res, target', ob', st') /\ ob_data ob' = l ++ r)).
Proof. exact any_size_node_id_witness. Qed.
Print Assumptions C01_any_size_node_id_refuted.

(* non-vacuity: a wrong claimed size (another chunk count) and a stream on which four items are yielded before the
   error, by both iterators *)
Theorem C01_any_size_nonvacuous :
  exists HO, hash_ok HO /\
  exists (data stream : bytes HO) (size' bs : N) (q : ranges),
    size' <= 2 ^ 63 /\ blen HO data <= 2 ^ 63 /\ bs <= 10 /\ wf_ranges q = true /\ size' <> blen HO data /\
    nchunks size' <> nchunks (blen HO data) /\
    (exists ys e st, dec_run HO (dec_new HO (root_hash HO data) (mkTree size' bs) stream q) = (ys, Failed e, st) /\
                     length ys = 4%nat /\ ys = firstn 4 (honest HO data bs q)) /\
    (exists ys e st, rd_run HO (rd_new HO (root_hash HO data) q (mkTree size' bs) stream) = (ys, Failed e, st) /\
                     length ys = 4%nat /\ ys = firstn 4 (honest HO data bs q)).
Proof. exact any_size_nonvacuous. Qed.
Print Assumptions C01_any_size_nonvacuous.

(* ---- WHICH node ids are right under a wrong claimed size (proofs in Proofs/GapKShape.v, GapKShapeTop.v) ----
   right_id_item: a true item that, if a parent, carries the true pair of the node it is yielded for;
   wrong_id_item: a parent that carries the true pair of ANOTHER node nd' of the blob *)
From BaoV Require Import Proofs.GapKShape Proofs.GapKShapeTop.

Theorem C01_id_items_def : forall HO (data : bytes HO) (size' : N) (i : item HO),
  (right_id_item HO data size' i <->
     true_item HO data size' i /\ forall nd l r, i = IParent nd l r -> (l, r) = true_pair HO data nd) /\
  (wrong_id_item HO data size' i <->
     exists nd l r nd', i = IParent nd l r /\ nd' <> nd /\ (l, r) = true_pair HO data nd' /\ true_item HO data size' i).
Proof. exact id_items_def. Qed.
Print Assumptions C01_id_items_def.

(* WHAT IS GUARANTEED INSTEAD of "every pair is the pair of its node": for both iterators, any claimed size, any
   block size, any well-formed query and EVERY stream the items yielded are ys1 ++ ys2 where
     - every item of ys1 is a true item under its right id (leaves: true bytes at the true offset; parents: the true
       pair of the node they are yielded for),
     - ys2 consists of PARENTS only, each carrying the true pair of another node of the blob (the first of them is the
       right-spine node at which the claimed and the true geometry split differently), and
     - once ys2 has started no leaf is yielded any more and the run does not finish.
   Hence: no data byte is ever yielded after a wrongly labelled pair, and a run that finishes has labelled every pair
   correctly *)
Theorem C01_any_size_ids : forall HO, hash_ok HO ->
  forall (data : bytes HO) (size' bs : N) (q : ranges),
  size' <= 2 ^ 63 -> blen HO data <= 2 ^ 63 -> wf_ranges q = true ->
  forall (stream : bytes HO) ys o,
  (exists st, dec_run HO (dec_new HO (root_hash HO data) (mkTree size' bs) stream q) = (ys, o, st)) \/
  (exists st, rd_run HO (rd_new HO (root_hash HO data) q (mkTree size' bs) stream) = (ys, o, st)) ->
  exists ys1 ys2, ys = ys1 ++ ys2 /\
    (forall i, In i ys1 -> right_id_item HO data size' i) /\
    (forall i, In i ys2 -> wrong_id_item HO data size' i) /\
    (ys2 <> [] -> o <> Finished).
Proof. exact any_size_ids. Qed.
Print Assumptions C01_any_size_ids.

(* the drivers: the items applied to the target / outboard are ys1 ++ ys2 as above; if a wrongly labelled pair was
   saved the driver does not return Ok *)
Theorem C01_any_size_decode_ranges_ids : forall HO, hash_ok HO ->
  forall (data : bytes HO) (size' bs : N) (q : ranges),
  size' <= 2 ^ 63 -> blen HO data <= 2 ^ 63 -> wf_ranges q = true ->
  forall (stream target : bytes HO) (ob : outboard HO),
  ob_root ob = root_hash HO data -> ob_tree ob = mkTree size' bs ->
  forall res target' ob',
  (exists st', decode_ranges HO stream q target ob = (res, target', ob', st')) \/
  (exists st', decode_ranges_fsm HO stream q target ob = (res, target', ob', st')) ->
  exists ys1 ys2, let a := apply_items HO (ys1 ++ ys2) target ob in
    target' = a_target HO a /\ ob' = a_ob HO a /\
    (forall i, In i ys1 -> right_id_item HO data size' i) /\
    (forall i, In i ys2 -> wrong_id_item HO data size' i) /\
    (ys2 <> [] -> res <> Ok tt).
Proof. exact any_size_decode_ranges_ids. Qed.
Print Assumptions C01_any_size_decode_ranges_ids.

(* non-vacuity with both parts non-empty: blob of seven chunks, claimed size 6144, honest stream: eight items (four
   leaves) under their right ids, then the true pair of node 5 under the id 4, then an error *)
Theorem C01_any_size_ids_nonvacuous :
  exists HO, hash_ok HO /\
  exists (data stream : bytes HO) (size' bs : N) (q : ranges) ys1 (l r : hash HO),
    size' <= 2 ^ 63 /\ blen HO data <= 2 ^ 63 /\ bs <= 10 /\ wf_ranges q = true /\
    (exists e st, dec_run HO (dec_new HO (root_hash HO data) (mkTree size' bs) stream q)
                  = (ys1 ++ [IParent 4 l r], Failed e, st)) /\
    (exists e st, rd_run HO (rd_new HO (root_hash HO data) q (mkTree size' bs) stream)
                  = (ys1 ++ [IParent 4 l r], Failed e, st)) /\
    ys1 = firstn 8 (honest HO data bs q) /\ length ys1 = 8%nat /\
    (l, r) = true_pair HO data 5.
Proof. exact any_size_ids_nonvacuous. Qed.
Print Assumptions C01_any_size_ids_nonvacuous.

(* ---- collision form (Proofs/Collision.v): the idealised hypothesis `cv_injective` is dropped.  Under the two
   hypotheses that are true of BLAKE3 and of byte comparison (32-byte outputs, correct equality test), the e2e
   conclusions hold on every stream OR the hash functions have a collision between two distinct valid inputs.
   These four theorems (and the C16 ones of the same form) are the only ones that depend on an axiom:
   Classical_Prop.classic (excluded middle, standard library). ---- *)
From BaoV Require Import Proofs.Collision.
Theorem C01_e2e_sync_or_collision : forall HO, cv_len32 HO -> beq_correct HO ->
  (forall (data : bytes HO) (bs : N) (q : ranges),
  (blen HO data <= 2 ^ 63)%N -> (bs <= 10)%N -> wf_ranges q = true -> q <> [] ->
  forall (stream : bytes HO) ys o st,
  dec_run HO (dec_new HO (root_hash HO data) (mkTree (blen HO data) bs) stream q) = (ys, o, st) ->
  is_prefix ys (honest HO data bs q) /\
  (o = Finished -> ys = honest HO data bs q /\ stream = flat HO (honest HO data bs q) ++ d_enc HO st) /\
  (forall e, o = Failed e ->
     ~ is_prefix (flat HO (firstn (length ys + 1) (honest HO data bs q))) stream) /\
  o <> Panicked /\ o <> OutOfFuel) \/
  collision HO.
Proof. intros HO Hl Hb. apply (or_collision HO _ Hl Hb). exact (C01_e2e_sync HO). Qed.
Print Assumptions C01_e2e_sync_or_collision.

Theorem C01_e2e_fsm_or_collision : forall HO, cv_len32 HO -> beq_correct HO ->
  (forall (data : bytes HO) (bs : N) (q : ranges),
  (blen HO data <= 2 ^ 63)%N -> (bs <= 10)%N -> wf_ranges q = true -> q <> [] ->
  forall (stream : bytes HO) ys o st,
  rd_run HO (rd_new HO (root_hash HO data) q (mkTree (blen HO data) bs) stream) = (ys, o, st) ->
  is_prefix ys (honest HO data bs q) /\
  (o = Finished -> ys = honest HO data bs q /\ stream = flat HO (honest HO data bs q) ++ Fsm.r_enc HO st) /\
  (forall e, o = Failed e ->
     ~ is_prefix (flat HO (firstn (length ys + 1) (honest HO data bs q))) stream) /\
  o <> Panicked /\ o <> OutOfFuel) \/
  collision HO.
Proof. intros HO Hl Hb. apply (or_collision HO _ Hl Hb). exact (C01_e2e_fsm HO). Qed.
Print Assumptions C01_e2e_fsm_or_collision.

Theorem C01_e2e_decode_ranges_or_collision : forall HO, cv_len32 HO -> beq_correct HO ->
  (forall (data : bytes HO) (bs : N) (q : ranges),
  (blen HO data <= 2 ^ 63)%N -> (bs <= 10)%N -> wf_ranges q = true -> q <> [] ->
  forall (stream target : bytes HO) (ob : outboard HO),
  ob_root ob = root_hash HO data -> ob_tree ob = mkTree (blen HO data) bs ->
  exists ys o st',
    let a := apply_items HO ys target ob in
    decode_ranges HO stream q target ob = (ranges_result (a_res HO a) o, a_target HO a, a_ob HO a, st') /\
    is_prefix ys (honest HO data bs q) /\
    (o = Finished -> ys = honest HO data bs q /\ is_prefix (flat HO (honest HO data bs q)) stream) /\
    (forall e, o = Failed e ->
       ~ is_prefix (flat HO (firstn (length ys + 1) (honest HO data bs q))) stream) /\
    o <> Panicked /\ o <> OutOfFuel) \/
  collision HO.
Proof. intros HO Hl Hb. apply (or_collision HO _ Hl Hb). exact (C01_e2e_decode_ranges HO). Qed.
Print Assumptions C01_e2e_decode_ranges_or_collision.

Theorem C01_e2e_decode_ranges_fsm_or_collision : forall HO, cv_len32 HO -> beq_correct HO ->
  (forall (data : bytes HO) (bs : N) (q : ranges),
  (blen HO data <= 2 ^ 63)%N -> (bs <= 10)%N -> wf_ranges q = true -> q <> [] ->
  forall (stream target : bytes HO) (ob : outboard HO),
  ob_root ob = root_hash HO data -> ob_tree ob = mkTree (blen HO data) bs ->
  exists ys o st',
    let a := apply_items HO ys target ob in
    decode_ranges_fsm HO stream q target ob = (ranges_result (a_res HO a) o, a_target HO a, a_ob HO a, st') /\
    is_prefix ys (honest HO data bs q) /\
    (o = Finished -> ys = honest HO data bs q /\ is_prefix (flat HO (honest HO data bs q)) stream) /\
    (forall e, o = Failed e ->
       ~ is_prefix (flat HO (firstn (length ys + 1) (honest HO data bs q))) stream) /\
    o <> Panicked /\ o <> OutOfFuel) \/
  collision HO.
Proof. intros HO Hl Hb. apply (or_collision HO _ Hl Hb). exact (C01_e2e_decode_ranges_fsm HO). Qed.
Print Assumptions C01_e2e_decode_ranges_fsm_or_collision.

Theorem C01_collision_excluded_by_hash_ok : forall HO, hash_ok HO -> ~ collision HO.
Proof. intros HO H. apply injective_excludes_collision. exact (ho_inj HO H). Qed.
Print Assumptions C01_collision_excluded_by_hash_ok.
