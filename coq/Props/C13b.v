(* C13, byte level: stability of the stored pairs under appending data.
   Statements only; proofs in Proofs/ObStable.v. *)
From BaoV Require Import Model.Hash Spec.NodeSpec Spec.EncSpec Spec.HashAssm Proofs.ObStable Proofs.ObPrefix.

Theorem C13_keeps_pair : forall (HO : hops) (data ext : bytes HO) (nd : N),
  sp_chunk_end nd * 1024 <= blen HO data ->
  true_pair HO data nd = true_pair HO (data ++ ext) nd.
Proof. exact keeps_pair. Qed.
Print Assumptions C13_keeps_pair.

(* the first sp_stable_count pairs of the post-order outboard survive appending data *)
Theorem C13_prefix : forall (HO : hops), cv_len32 HO ->
  forall (data ext : bytes HO) (bs : N), blen HO (data ++ ext) <= 2 ^ 63 ->
  let s := sp_stable_count (blen HO data) bs in
  take HO (64 * s) (spec_outboard HO true data bs) = take HO (64 * s) (spec_outboard HO true (data ++ ext) bs).
Proof. exact outboard_prefix. Qed.
Print Assumptions C13_prefix.

(* ======== Gap audit (proofs in Proofs/GapStable.v, Proofs/GapStableB.v) ========
   C13_keeps_pair / C13_prefix above are about the specification functions true_pair / spec_outboard.  The
   theorems below state the same for the bytes the model's code produces (post-order writers, creation entry
   points), for the pairs the model's loaders return from created stores, and along chains of appends. *)
From BaoV Require Import Model.Sync Model.Fsm Spec.NodeSpec Spec.EncSpec Spec.HashAssm
  Proofs.HistOb Proofs.FinalStore Proofs.GapStable Proofs.GapStableB.

(* the post-order writers (sync and fsm): the output for the blob, cut after its stable pairs (the cut lies inside
   the output), is a prefix of the output for every extension *)
Theorem C13_gap_prefix_writers : forall (HO : hops), cv_len32 HO ->
  forall (data ext : bytes HO) (bs : N), blen HO (data ++ ext) <= 2 ^ 63 -> bs <= 10 ->
  let s := sp_stable_count (blen HO data) bs in
  take HO (64 * s) (snd (fst (outboard_post_order HO (mkTree (blen HO data) bs) data)))
  = take HO (64 * s) (snd (fst (outboard_post_order HO (mkTree (blen HO (data ++ ext)) bs) (data ++ ext)))) /\
  take HO (64 * s) (snd (fst (outboard_post_order_fsm HO (mkTree (blen HO data) bs) data)))
  = take HO (64 * s) (snd (fst (outboard_post_order_fsm HO (mkTree (blen HO (data ++ ext)) bs) (data ++ ext)))) /\
  64 * s <= blen HO (snd (fst (outboard_post_order HO (mkTree (blen HO data) bs) data))) /\
  64 * s <= blen HO (snd (fst (outboard_post_order_fsm HO (mkTree (blen HO data) bs) data))).
Proof. exact gap_prefix_writers. Qed.
Print Assumptions C13_gap_prefix_writers.

(* the three post-order creation entry points: they succeed on the blob and on the extension, all return the same
   byte vector o1 resp. o2, and o2 is o1 cut after the stable pairs followed by the rest of o2 *)
Theorem C13_gap_prefix_entry_points : forall (HO : hops), cv_len32 HO ->
  forall (data ext : bytes HO) (bs : N), blen HO (data ++ ext) <= 2 ^ 63 -> bs <= 10 ->
  exists (o1 o2 : bytes HO),
   (create_sized HO PostIO data (blen HO data) bs
      = Ok (mkOb PostIO (root_hash HO data) (mkTree (blen HO data) bs) o1) /\
    create_sized_fsm HO PostIO data (blen HO data) bs
      = Ok (mkOb PostIO (root_hash HO data) (mkTree (blen HO data) bs) o1) /\
    post_mem_create HO data bs
      = Ok (mkOb PostMem (root_hash HO data) (mkTree (blen HO data) bs) o1)) /\
   (create_sized HO PostIO (data ++ ext) (blen HO (data ++ ext)) bs
      = Ok (mkOb PostIO (root_hash HO (data ++ ext)) (mkTree (blen HO (data ++ ext)) bs) o2) /\
    create_sized_fsm HO PostIO (data ++ ext) (blen HO (data ++ ext)) bs
      = Ok (mkOb PostIO (root_hash HO (data ++ ext)) (mkTree (blen HO (data ++ ext)) bs) o2) /\
    post_mem_create HO (data ++ ext) bs
      = Ok (mkOb PostMem (root_hash HO (data ++ ext)) (mkTree (blen HO (data ++ ext)) bs) o2)) /\
   64 * sp_stable_count (blen HO data) bs <= blen HO o1 /\
   o2 = take HO (64 * sp_stable_count (blen HO data) bs) o1 ++ drop HO (64 * sp_stable_count (blen HO data) bs) o2.
Proof. exact gap_prefix_entry_points. Qed.
Print Assumptions C13_gap_prefix_entry_points.

(* any two post-order stores holding the outboards of the blob and of an extension (created_store: C03_created_store_def;
   every result of a creation entry point or of init_from on a pre-sized store is one) *)
Theorem C13_gap_prefix_created_store : forall (HO : hops), cv_len32 HO ->
  forall (data ext : bytes HO) (bs : N) (ob1 ob2 : outboard HO),
  blen HO (data ++ ext) <= 2 ^ 63 -> bs <= 10 ->
  created_store HO data bs ob1 -> created_store HO (data ++ ext) bs ob2 ->
  is_post (ob_k ob1) = true -> is_post (ob_k ob2) = true ->
  let s := sp_stable_count (blen HO data) bs in
  take HO (64 * s) (ob_data ob1) = take HO (64 * s) (ob_data ob2) /\
  64 * s <= blen HO (ob_data ob1) /\
  ob_data ob2 = take HO (64 * s) (ob_data ob1) ++ drop HO (64 * s) (ob_data ob2).
Proof. exact gap_prefix_created_store. Qed.
Print Assumptions C13_gap_prefix_created_store.

(* the results of the creation entry points (created_by: C03_created_by_def; inhabited for both post-order kinds by
   C13_gap_prefix_entry_points) *)
Theorem C13_gap_prefix_created_by : forall (HO : hops), cv_len32 HO ->
  forall (data ext : bytes HO) (bs : N) (ob1 ob2 : outboard HO),
  blen HO (data ++ ext) <= 2 ^ 63 -> bs <= 10 ->
  created_by HO data bs ob1 -> created_by HO (data ++ ext) bs ob2 ->
  is_post (ob_k ob1) = true -> is_post (ob_k ob2) = true ->
  let s := sp_stable_count (blen HO data) bs in
  take HO (64 * s) (ob_data ob1) = take HO (64 * s) (ob_data ob2) /\
  64 * s <= blen HO (ob_data ob1) /\
  ob_data ob2 = take HO (64 * s) (ob_data ob1) ++ drop HO (64 * s) (ob_data ob2).
Proof. exact gap_prefix_created_by. Qed.
Print Assumptions C13_gap_prefix_created_by.

(* "stable nodes keep their stored pair": a listed node of the blob's tree classified Stable loads the same pair -
   the blob's true pair - from every created store of the blob and from every created store of every extension,
   each of any of the four kinds (pre- or post-order, io or memory backed), sync and fsm loaders alike *)
Theorem C13_gap_keeps_stored_pair : forall (HO : hops), cv_len32 HO ->
  forall (data ext : bytes HO) (bs : N) (ob1 ob2 : outboard HO) (nd v : N),
  blen HO (data ++ ext) <= 2 ^ 63 -> bs <= 10 ->
  created_store HO data bs ob1 -> created_store HO (data ++ ext) bs ob2 ->
  In nd (sp_post_nodes (blen HO data) bs) ->
  post_order_offset (mkTree (blen HO data) bs) nd = Some (Stable v) ->
  load_sync HO ob2 nd = load_sync HO ob1 nd /\
  load_fsm HO ob2 nd = load_fsm HO ob1 nd /\
  load_sync HO ob1 nd = Ok (Some (true_pair HO data nd)) /\
  load_fsm HO ob1 nd = Ok (Some (true_pair HO data nd)) /\
  true_pair HO (data ++ ext) nd = true_pair HO data nd.
Proof. exact gap_keeps_stored_pair. Qed.
Print Assumptions C13_gap_keeps_stored_pair.

Theorem C13_gap_keeps_stored_pair_nonvacuous :
  cv_len32 gap_hops /\
  exists (data ext : bytes gap_hops) (bs : N) (ob1 ob2 : outboard gap_hops) (nd v : N),
    blen gap_hops (data ++ ext) <= 2 ^ 63 /\ bs <= 10 /\
    created_store gap_hops data bs ob1 /\ created_store gap_hops (data ++ ext) bs ob2 /\
    In nd (sp_post_nodes (blen gap_hops data) bs) /\
    post_order_offset (mkTree (blen gap_hops data) bs) nd = Some (Stable v).
Proof. exact gap_keeps_stored_pair_nonvacuous. Qed.
Print Assumptions C13_gap_keeps_stored_pair_nonvacuous.

(* the same for EVERY node id at or above the block level whose whole subtree lies inside the blob (the node is not
   assumed to be listed): it is a listed node, classified Stable with the same slot in the tree of the blob and
   of the extension, and all created stores of both return the blob's true pair for it *)
Theorem C13_gap_keeps_stored_pair_inside : forall (HO : hops), cv_len32 HO ->
  forall (data ext : bytes HO) (bs : N) (ob1 ob2 : outboard HO) (nd : N),
  blen HO (data ++ ext) <= 2 ^ 63 -> bs <= 10 ->
  created_store HO data bs ob1 -> created_store HO (data ++ ext) bs ob2 ->
  bs <= level nd -> sp_chunk_end nd * 1024 <= blen HO data ->
  (exists v, post_order_offset (mkTree (blen HO data) bs) nd = Some (Stable v) /\
             post_order_offset (mkTree (blen HO (data ++ ext)) bs) nd = Some (Stable v)) /\
  In nd (sp_post_nodes (blen HO data) bs) /\
  load_sync HO ob2 nd = load_sync HO ob1 nd /\
  load_fsm HO ob2 nd = load_fsm HO ob1 nd /\
  load_sync HO ob1 nd = Ok (Some (true_pair HO data nd)) /\
  load_fsm HO ob1 nd = Ok (Some (true_pair HO data nd)) /\
  true_pair HO (data ++ ext) nd = true_pair HO data nd.
Proof. exact gap_keeps_stored_pair_inside. Qed.
Print Assumptions C13_gap_keeps_stored_pair_inside.

Theorem C13_gap_keeps_stored_pair_inside_nonvacuous :
  exists (data ext : bytes gap_hops) (bs : N) (ob1 ob2 : outboard gap_hops) (nd : N),
    blen gap_hops (data ++ ext) <= 2 ^ 63 /\ bs <= 10 /\
    created_store gap_hops data bs ob1 /\ created_store gap_hops (data ++ ext) bs ob2 /\
    bs <= level nd /\ sp_chunk_end nd * 1024 <= blen gap_hops data.
Proof. exact gap_keeps_stored_pair_inside_nonvacuous. Qed.
Print Assumptions C13_gap_keeps_stored_pair_inside_nonvacuous.

(* in post-order stores the pair also stays at the same place: same slot v in both stores, below the cut, inside
   the smaller store, the same 64 bytes, which parse to the blob's true pair *)
Theorem C13_gap_keeps_stored_slot : forall (HO : hops), cv_len32 HO ->
  forall (data ext : bytes HO) (bs : N) (ob1 ob2 : outboard HO) (nd v : N),
  blen HO (data ++ ext) <= 2 ^ 63 -> bs <= 10 ->
  created_store HO data bs ob1 -> created_store HO (data ++ ext) bs ob2 ->
  is_post (ob_k ob1) = true -> is_post (ob_k ob2) = true ->
  In nd (sp_post_nodes (blen HO data) bs) ->
  post_order_offset (mkTree (blen HO data) bs) nd = Some (Stable v) ->
  ob_offset HO ob1 nd = Some v /\ ob_offset HO ob2 nd = Some v /\
  v < sp_stable_count (blen HO data) bs /\
  v * 64 + 64 <= blen HO (ob_data ob1) /\
  slice HO (v * 64) 64 (ob_data ob2) = slice HO (v * 64) 64 (ob_data ob1) /\
  parse_pair HO (slice HO (v * 64) 64 (ob_data ob1)) = true_pair HO data nd.
Proof. exact gap_keeps_stored_slot. Qed.
Print Assumptions C13_gap_keeps_stored_slot.

Theorem C13_gap_keeps_stored_slot_nonvacuous :
  exists (data ext : bytes gap_hops) (bs : N) (ob1 ob2 : outboard gap_hops) (nd v : N),
    blen gap_hops (data ++ ext) <= 2 ^ 63 /\ bs <= 10 /\
    created_store gap_hops data bs ob1 /\ created_store gap_hops (data ++ ext) bs ob2 /\
    is_post (ob_k ob1) = true /\ is_post (ob_k ob2) = true /\
    In nd (sp_post_nodes (blen gap_hops data) bs) /\
    post_order_offset (mkTree (blen gap_hops data) bs) nd = Some (Stable v).
Proof. exact gap_keeps_stored_slot_nonvacuous. Qed.
Print Assumptions C13_gap_keeps_stored_slot_nonvacuous.

(* two appends: the cuts move forward, both cuts are prefixes of the final outboard, the first cut is a prefix of
   the second (any block size) *)
Theorem C13_gap_prefix_chain2 : forall (HO : hops), cv_len32 HO ->
  forall (data ext1 ext2 : bytes HO) (bs : N), blen HO (data ++ ext1 ++ ext2) <= 2 ^ 63 ->
  let s1 := sp_stable_count (blen HO data) bs in
  let s2 := sp_stable_count (blen HO (data ++ ext1)) bs in
  s1 <= s2 /\
  take HO (64 * s1) (spec_outboard HO true data bs) = take HO (64 * s1) (spec_outboard HO true (data ++ ext1) bs) /\
  take HO (64 * s1) (spec_outboard HO true data bs) = take HO (64 * s1) (spec_outboard HO true (data ++ ext1 ++ ext2) bs) /\
  take HO (64 * s2) (spec_outboard HO true (data ++ ext1) bs)
    = take HO (64 * s2) (spec_outboard HO true (data ++ ext1 ++ ext2) bs) /\
  take HO (64 * s1) (spec_outboard HO true data bs)
    = take HO (64 * s1) (take HO (64 * s2) (spec_outboard HO true (data ++ ext1) bs)).
Proof. exact gap_prefix_chain2. Qed.
Print Assumptions C13_gap_prefix_chain2.

(* any chain of appends data, data ++ e1, data ++ e1 ++ e2, ... (stage i = data followed by the first i
   extensions), any two stages i <= j, for the bytes written by the model's post-order writer: the cut moves
   forward, and the cut of stage i is a prefix of the output of stage j and of the cut of stage j *)
Theorem C13_gap_prefix_chain : forall (HO : hops), cv_len32 HO ->
  forall (data : bytes HO) (exts : list (bytes HO)) (bs : N) (i j : nat),
  blen HO (data ++ concat exts) <= 2 ^ 63 -> bs <= 10 -> (i <= j)%nat ->
  let di := data ++ concat (firstn i exts) in
  let dj := data ++ concat (firstn j exts) in
  let si := sp_stable_count (blen HO di) bs in
  let sj := sp_stable_count (blen HO dj) bs in
  si <= sj /\
  take HO (64 * si) (snd (fst (outboard_post_order HO (mkTree (blen HO di) bs) di)))
  = take HO (64 * si) (snd (fst (outboard_post_order HO (mkTree (blen HO dj) bs) dj))) /\
  take HO (64 * si) (snd (fst (outboard_post_order HO (mkTree (blen HO di) bs) di)))
  = take HO (64 * si) (take HO (64 * sj) (snd (fst (outboard_post_order HO (mkTree (blen HO dj) bs) dj)))).
Proof. exact gap_prefix_chain. Qed.
Print Assumptions C13_gap_prefix_chain.

(* the cut is not empty in general: 3 chunks: 1 of 2 pairs stable; 4 chunks: all 3 pairs stable *)
Theorem C13_gap_stable_count_nonvacuous :
  sp_stable_count 3072 0 = 1 /\ sp_stable_count 4096 0 = 3 /\ sp_blocks 3072 0 - 1 = 2 /\ sp_blocks 4096 0 - 1 = 3.
Proof. exact gap_stable_count_nonvacuous. Qed.
Print Assumptions C13_gap_stable_count_nonvacuous.
