(* C13, byte level: stability of the stored pairs under appending data.
   Statements only; proofs in Proofs/ObStable.v. *)
From BaoV Require Import Model.Hash Spec.NodeSpec Spec.EncSpec Spec.HashAssm Proofs.ObStable Proofs.ObPrefix.

Theorem C13_keeps_pair : forall (HO : hops) (data ext : bytes HO) (nd : N),
  sp_chunk_end nd * 1024 <= blen HO data ->
  true_pair HO data nd = true_pair HO (data ++ ext) nd.
Proof. exact keeps_pair. Qed.
Print Assumptions C13_keeps_pair.

(* the first sp_stable_count pairs of the post-order outboard survive appending data *)
Theorem C13_prefix : forall (HO : hops), cv_len32 HO ->
  forall (data ext : bytes HO) (bs : N), blen HO (data ++ ext) <= 2 ^ 63 ->
  let s := sp_stable_count (blen HO data) bs in
  take HO (64 * s) (spec_outboard HO true data bs) = take HO (64 * s) (spec_outboard HO true (data ++ ext) bs).
Proof. exact outboard_prefix. Qed.
Print Assumptions C13_prefix.
