(* C14 statements (truncate_ranges); proofs in Proofs/Range*.v. *)
From BaoV Require Import Spec.RangeSpec Proofs.RangeProofs.

Theorem C14_truncate_sel : forall q size c,
  wf_ranges q = true -> size <= 2 ^ 63 ->
  sel (truncate_ranges q size) size c = sel q size c.
Proof. exact truncate_sel_dom. Qed.
Print Assumptions C14_truncate_sel.

Theorem C14_truncate_idem : forall q size,
  wf_ranges q = true -> size <= 2 ^ 63 ->
  truncate_ranges (truncate_ranges q size) size = truncate_ranges q size.
Proof. exact truncate_idem_dom. Qed.
Print Assumptions C14_truncate_idem.

Theorem C14_truncate_wf : forall q size,
  wf_ranges q = true -> wf_ranges (truncate_ranges q size) = true.
Proof. exact truncate_wf. Qed.
Print Assumptions C14_truncate_wf.

Theorem C14_truncate_owned_eq : forall q size,
  truncate_ranges_owned q size = truncate_ranges q size.
Proof. exact truncate_owned_eq. Qed.
Print Assumptions C14_truncate_owned_eq.

(* membership strictly below the last chunk is never changed by truncation *)
Theorem C14_truncate_mem_below : forall q size c,
  wf_ranges q = true -> c < nchunks size - 1 ->
  mem (truncate_ranges q size) c = mem q c.
Proof. exact truncate_mem_below. Qed.
Print Assumptions C14_truncate_mem_below.

(* C14_truncate_canonical as first proposed (agreement for all c < nchunks size) is FALSE, see
   C14_truncate_canonical_refuted.  What holds: agreement below the last chunk. *)
Theorem C14_truncate_canonical_below : forall q1 q2 size,
  wf_ranges q1 = true -> wf_ranges q2 = true -> size <= 2 ^ 63 ->
  (forall c, sel q1 size c = sel q2 size c) ->
  forall c, c < nchunks size - 1 ->
    mem (truncate_ranges q1 size) c = mem (truncate_ranges q2 size) c.
Proof. exact truncate_canonical_below_dom. Qed.
Print Assumptions C14_truncate_canonical_below.

Theorem C14_truncate_canonical_refuted :
  exists q1 q2 size c, wf_ranges q1 = true /\ wf_ranges q2 = true /\ size <= 2 ^ 63 /\
    (forall c, sel q1 size c = sel q2 size c) /\ c < nchunks size /\
    mem (truncate_ranges q1 size) c <> mem (truncate_ranges q2 size) c.
Proof. exact truncate_canonical_refuted. Qed.
Print Assumptions C14_truncate_canonical_refuted.

(* membership of the last chunk after truncation *)
Theorem C14_truncate_mem_last : forall q size,
  wf_ranges q = true ->
  let lc := nchunks size - 1 in
  mem (truncate_ranges q size) lc = mem q lc || ((0 <? lc) && mem q (lc - 1) && reaches q (lc + 1)).
Proof. exact truncate_mem_last. Qed.
Print Assumptions C14_truncate_mem_last.

(* canonical form on the whole blob, given that the two queries also agree on the last chunk itself *)
Theorem C14_truncate_canonical_last : forall q1 q2 size,
  wf_ranges q1 = true -> wf_ranges q2 = true -> size <= 2 ^ 63 ->
  (forall c, sel q1 size c = sel q2 size c) ->
  mem q1 (nchunks size - 1) = mem q2 (nchunks size - 1) ->
  forall c, c < nchunks size -> mem (truncate_ranges q1 size) c = mem (truncate_ranges q2 size) c.
Proof. exact truncate_canonical_last_dom. Qed.
Print Assumptions C14_truncate_canonical_last.

(* ======== End-to-end composition (proofs in Proofs/BridgePlan.v, Proofs/E2EMisc.v) ======== *)
From BaoV Require Import Model.Fsm Spec.EncSpec Spec.HashAssm Proofs.E2EGlue Proofs.E2EDecode Proofs.E2EMisc.
From BaoV Require Proofs.BridgePlan.

(* two queries with the same selection have the same honest encoding *)
Theorem C14_encode_equiv : forall (HO : hops) (data : bytes HO) (bs : N) (q1 q2 : ranges),
  (forall c, sel q1 (blen HO data) c = sel q2 (blen HO data) c) ->
  honest HO data bs q1 = honest HO data bs q2.
Proof. exact BridgePlan.bridge_function_of_selection. Qed.
Print Assumptions C14_encode_equiv.

(* ... and the encoding made for one of them is accepted in full by the decoders set up for the other
   (only the decoder's query q2 has to be well formed and non-empty) *)
Theorem C14_cross_decode : forall HO, hash_ok HO ->
  forall (data : bytes HO) (bs : N) (q1 q2 : ranges),
  (blen HO data <= 2 ^ 63)%N -> (bs <= 10)%N -> wf_ranges q2 = true -> q2 <> [] ->
  (forall c, sel q1 (blen HO data) c = sel q2 (blen HO data) c) ->
  forall rest : bytes HO,
  let t := mkTree (blen HO data) bs in
  let root := root_hash HO data in
  let stream := flat HO (honest HO data bs q1) ++ rest in
  honest HO data bs q1 = honest HO data bs q2 /\
  (exists st, dec_run HO (dec_new HO root t stream q2) = (honest HO data bs q1, Finished, st) /\
              d_enc HO st = rest) /\
  (exists st, rd_run HO (rd_new HO root q2 t stream) = (honest HO data bs q1, Finished, st) /\
              Fsm.r_enc HO st = rest).
Proof. exact e2e_cross_decode. Qed.
Print Assumptions C14_cross_decode.

(* ======== Gap audit (proofs in Proofs/GapC14.v, Proofs/GapC14Enc.v, Proofs/GapC14Val.v) ======== *)
From BaoV Require Import Model.Sync Model.Fsm Spec.PlanSpec Proofs.DecRanges Proofs.EncThm.
From BaoV Require Import Proofs.RangeTrunc Proofs.GapC14 Proofs.GapC14Enc Proofs.GapC14Val.
Local Open Scope N_scope.

(* ---- canonicalisation: for ALL blob sizes (the statements above carry an unused bound size <= 2^63) ---- *)
Theorem C14_truncate_sel_any_size : forall q size c,
  wf_ranges q = true -> sel (truncate_ranges q size) size c = sel q size c.
Proof. exact truncate_sel. Qed.
Print Assumptions C14_truncate_sel_any_size.

Theorem C14_truncate_idem_any_size : forall q size,
  wf_ranges q = true -> truncate_ranges (truncate_ranges q size) size = truncate_ranges q size.
Proof. exact truncate_idem. Qed.
Print Assumptions C14_truncate_idem_any_size.

(* ---- the decoders depend on the query only through the selection: on EVERY stream and for every root
   (C14_cross_decode above is about the honest stream only) ---- *)
(* the plan of the decoders (ResponseIter over the canonicalised query) *)
Theorem C14_response_iter_of_selection : forall size bs q1 q2,
  size <= 2 ^ 63 -> bs <= 10 -> wf_ranges q1 = true -> wf_ranges q2 = true ->
  (forall c, sel q1 size c = sel q2 size c) ->
  response_iter (mkTree size bs) (truncate_ranges q1 size) = response_iter (mkTree size bs) (truncate_ranges q2 size).
Proof. exact response_iter_of_selection. Qed.
Print Assumptions C14_response_iter_of_selection.

(* sync DecodeResponseIter: same items, same outcome, same pending hash stack, same unread stream *)
Theorem C14_dec_run_of_selection : forall (HO : hops) (size bs : N) (q1 q2 : ranges),
  size <= 2 ^ 63 -> bs <= 10 -> wf_ranges q1 = true -> wf_ranges q2 = true ->
  (forall c, sel q1 size c = sel q2 size c) ->
  forall (root : hash HO) (stream : bytes HO),
  fst (dec_run HO (dec_new HO root (mkTree size bs) stream q1)) = fst (dec_run HO (dec_new HO root (mkTree size bs) stream q2)) /\
  d_stack HO (snd (dec_run HO (dec_new HO root (mkTree size bs) stream q1))) =
  d_stack HO (snd (dec_run HO (dec_new HO root (mkTree size bs) stream q2))) /\
  d_enc HO (snd (dec_run HO (dec_new HO root (mkTree size bs) stream q1))) =
  d_enc HO (snd (dec_run HO (dec_new HO root (mkTree size bs) stream q2))).
Proof. exact dec_run_of_selection. Qed.
Print Assumptions C14_dec_run_of_selection.

(* fsm ResponseDecoder *)
Theorem C14_rd_run_of_selection : forall (HO : hops) (size bs : N) (q1 q2 : ranges),
  size <= 2 ^ 63 -> bs <= 10 -> wf_ranges q1 = true -> wf_ranges q2 = true ->
  (forall c, sel q1 size c = sel q2 size c) ->
  forall (root : hash HO) (stream : bytes HO),
  fst (rd_run HO (rd_new HO root q1 (mkTree size bs) stream)) = fst (rd_run HO (rd_new HO root q2 (mkTree size bs) stream)) /\
  Fsm.r_stack HO (snd (rd_run HO (rd_new HO root q1 (mkTree size bs) stream))) =
  Fsm.r_stack HO (snd (rd_run HO (rd_new HO root q2 (mkTree size bs) stream))) /\
  Fsm.r_enc HO (snd (rd_run HO (rd_new HO root q1 (mkTree size bs) stream))) =
  Fsm.r_enc HO (snd (rd_run HO (rd_new HO root q2 (mkTree size bs) stream))).
Proof. exact rd_run_of_selection. Qed.
Print Assumptions C14_rd_run_of_selection.

(* decode_ranges, sync and fsm: same result, same target file, same outboard - whatever the stream, the target
   and the store *)
Theorem C14_decode_ranges_of_selection : forall (HO : hops) (size bs : N) (q1 q2 : ranges),
  size <= 2 ^ 63 -> bs <= 10 -> wf_ranges q1 = true -> wf_ranges q2 = true ->
  (forall c, sel q1 size c = sel q2 size c) ->
  forall (stream target : bytes HO) (ob : outboard HO),
  ob_tree ob = mkTree size bs ->
  fst (decode_ranges HO stream q1 target ob) = fst (decode_ranges HO stream q2 target ob) /\
  fst (decode_ranges_fsm HO stream q1 target ob) = fst (decode_ranges_fsm HO stream q2 target ob).
Proof. exact decode_ranges_of_selection. Qed.
Print Assumptions C14_decode_ranges_of_selection.

(* ---- cross decoding with decode_ranges (sync and fsm): the honest encoding made for q1 is applied in full by
   decode_ranges called with q2 (only the decoder's query has to be well formed and non-empty) ---- *)
Theorem C14_cross_decode_ranges : forall HO, hash_ok HO ->
  forall (data : bytes HO) (bs : N) (q1 q2 : ranges),
  blen HO data <= 2 ^ 63 -> bs <= 10 -> wf_ranges q2 = true -> q2 <> [] ->
  (forall c, sel q1 (blen HO data) c = sel q2 (blen HO data) c) ->
  forall (rest target : bytes HO) (sink : outboard HO),
  ob_root sink = root_hash HO data -> ob_tree sink = mkTree (blen HO data) bs ->
  let a := apply_items HO (honest HO data bs q1) target sink in
  (exists st', decode_ranges HO (flat HO (honest HO data bs q1) ++ rest) q2 target sink =
               (ranges_result (a_res HO a) Finished, a_target HO a, a_ob HO a, st')) /\
  (exists st', decode_ranges_fsm HO (flat HO (honest HO data bs q1) ++ rest) q2 target sink =
               (ranges_result (a_res HO a) Finished, a_target HO a, a_ob HO a, st')).
Proof. exact cross_decode_ranges. Qed.
Print Assumptions C14_cross_decode_ranges.

(* ---- requester and provider need not agree on the representation: what the validating encoders (sync / fsm) of a
   provider produce for q1, from a store that serves the blob's pairs on the nodes the encoder visits, is the honest
   encoding for q2, which decode_ranges (sync / fsm) of a requester that asked with q2 applies in full ---- *)
Theorem C14_provider_requester : forall (HO : hops), hash_ok HO ->
  forall (data : bytes HO) (bs : N) (q1 q2 : ranges) (ob : outboard HO),
  blen HO data <= 2 ^ 63 -> bs <= 10 -> wf_ranges q1 = true -> wf_ranges q2 = true -> q2 <> [] ->
  (forall c, sel q1 (blen HO data) c = sel q2 (blen HO data) c) ->
  ob_tree ob = mkTree (blen HO data) bs -> ob_root ob = root_hash HO data ->
  (forall nd, In nd (enc_nodes (blen HO data) bs q1) -> stored_ok HO data ob nd /\ stored_ok_fsm HO data ob nd) ->
  encode_ranges_validated HO data ob q1 = (Ok tt, flat HO (honest HO data bs q2)) /\
  encode_ranges_validated_fsm HO data ob q1 = (Ok tt, flat HO (honest HO data bs q2)) /\
  forall (rest target : bytes HO) (sink : outboard HO),
    ob_root sink = root_hash HO data -> ob_tree sink = mkTree (blen HO data) bs ->
    let a := apply_items HO (honest HO data bs q2) target sink in
    (exists st', decode_ranges HO (flat HO (honest HO data bs q2) ++ rest) q2 target sink =
                 (ranges_result (a_res HO a) Finished, a_target HO a, a_ob HO a, st')) /\
    (exists st', decode_ranges_fsm HO (flat HO (honest HO data bs q2) ++ rest) q2 target sink =
                 (ranges_result (a_res HO a) Finished, a_target HO a, a_ob HO a, st')).
Proof. exact provider_requester. Qed.
Print Assumptions C14_provider_requester.

(* ---- the encoders of the model (not only the specification `honest`) are functions of the selection ---- *)
(* with min level 0 the chunk plan of a RAW (not canonicalised) query is a function of the selection: no size bound *)
Theorem C14_chunk_plan_of_selection : forall size bs q1 q2, wf_ranges q1 = true -> wf_ranges q2 = true ->
  (forall c, sel q1 size c = sel q2 size c) -> pre_plan size bs 0 q1 = pre_plan size bs 0 q2.
Proof. exact pre_plan0_of_selection. Qed.
Print Assumptions C14_chunk_plan_of_selection.

Theorem C14_chunk_iter_of_selection : forall size bs q1 q2, size <= 2 ^ 63 -> bs <= 10 ->
  wf_ranges q1 = true -> wf_ranges q2 = true -> (forall c, sel q1 size c = sel q2 size c) ->
  map without_ranges (pre_order_chunks_iter (mkTree size bs) q1 0) = map without_ranges (pre_order_chunks_iter (mkTree size bs) q2 0).
Proof. exact chunk_iter0_of_selection. Qed.
Print Assumptions C14_chunk_iter_of_selection.

(* the non-validating encoders (they do not canonicalise): EVERY store, EVERY data file *)
Theorem C14_encode_ranges_of_selection : forall (HO : hops) (data : bytes HO) (ob : outboard HO) (q1 q2 : ranges),
  tsize (ob_tree ob) <= 2 ^ 63 -> tbs (ob_tree ob) <= 10 -> wf_ranges q1 = true -> wf_ranges q2 = true ->
  (forall c, sel q1 (tsize (ob_tree ob)) c = sel q2 (tsize (ob_tree ob)) c) ->
  encode_ranges HO data ob q1 = encode_ranges HO data ob q2 /\
  encode_ranges_fsm HO data ob q1 = encode_ranges_fsm HO data ob q2.
Proof. exact encode_ranges_of_selection. Qed.
Print Assumptions C14_encode_ranges_of_selection.

(* the validating encoders: any pairs and any data file data' (partial, corrupted, failing loads), on a store that
   carries the tree and the root of a blob `data`.  C04_function_of_selection needs every visited pair intact. *)
Theorem C14_validated_encoders_of_selection : forall (HO : hops), hash_ok HO ->
  forall (data : bytes HO) (bs : N) (q1 q2 : ranges),
  wf_ranges q1 = true -> wf_ranges q2 = true -> blen HO data <= 2 ^ 63 -> bs <= 10 ->
  (forall c, sel q1 (blen HO data) c = sel q2 (blen HO data) c) ->
  forall (ob : outboard HO) (data' : bytes HO),
  ob_tree ob = mkTree (blen HO data) bs -> ob_root ob = root_hash HO data ->
  encode_ranges_validated HO data' ob q1 = encode_ranges_validated HO data' ob q2 /\
  encode_ranges_validated_fsm HO data' ob q1 = encode_ranges_validated_fsm HO data' ob q2.
Proof. exact validated_encoders_of_selection. Qed.
Print Assumptions C14_validated_encoders_of_selection.

(* ---- the validators (they canonicalise the query too): EVERY store and data file, sync and fsm ---- *)
Theorem C14_validators_of_selection : forall (HO : hops) (ob : outboard HO) (d : bytes HO) (q1 q2 : ranges),
  tsize (ob_tree ob) <= 2 ^ 63 -> tbs (ob_tree ob) <= 10 -> wf_ranges q1 = true -> wf_ranges q2 = true ->
  (forall c, sel q1 (tsize (ob_tree ob)) c = sel q2 (tsize (ob_tree ob)) c) ->
  valid_ranges HO ob d q1 = valid_ranges HO ob d q2 /\
  valid_outboard_ranges HO ob q1 = valid_outboard_ranges HO ob q2 /\
  valid_ranges_fsm HO ob d q1 = valid_ranges_fsm HO ob d q2 /\
  valid_outboard_ranges_fsm HO ob q1 = valid_outboard_ranges_fsm HO ob q2.
Proof. exact validators_of_selection. Qed.
Print Assumptions C14_validators_of_selection.

(* non-vacuity: two different boundary lists, different also after canonicalisation, with the same selection; their
   raw chunk plans differ in the ranges fields only; hash_ok is inhabited *)
Theorem C14_gap_nonvacuous :
  4000 <= 2 ^ 63 /\ wf_ranges [4] = true /\ wf_ranges [3] = true /\ [3] <> @nil N /\
  (forall c, sel [4] 4000 c = sel [3] 4000 c) /\
  truncate_ranges [4] 4000 <> truncate_ranges [3] 4000 /\
  response_iter (mkTree 4000 1) (truncate_ranges [4] 4000) = response_iter (mkTree 4000 1) (truncate_ranges [3] 4000) /\
  (exists HO, hash_ok HO).
Proof. exact gap_c14_nonvacuous. Qed.
Print Assumptions C14_gap_nonvacuous.

Theorem C14_gap_enc_nonvacuous :
  pre_order_chunks_iter (mkTree 4000 1) [4] 0 <> pre_order_chunks_iter (mkTree 4000 1) [3] 0 /\
  map without_ranges (pre_order_chunks_iter (mkTree 4000 1) [4] 0) = map without_ranges (pre_order_chunks_iter (mkTree 4000 1) [3] 0).
Proof. exact gap_c14_enc_nonvacuous. Qed.
Print Assumptions C14_gap_enc_nonvacuous.
