(* C14 statements (truncate_ranges); proofs in Proofs/Range*.v. *)
From BaoV Require Import Spec.RangeSpec Proofs.RangeProofs.

Theorem C14_truncate_sel : forall q size c,
  wf_ranges q = true -> size <= 2 ^ 63 ->
  sel (truncate_ranges q size) size c = sel q size c.
Proof. exact truncate_sel_dom. Qed.
Print Assumptions C14_truncate_sel.

Theorem C14_truncate_idem : forall q size,
  wf_ranges q = true -> size <= 2 ^ 63 ->
  truncate_ranges (truncate_ranges q size) size = truncate_ranges q size.
Proof. exact truncate_idem_dom. Qed.
Print Assumptions C14_truncate_idem.

Theorem C14_truncate_wf : forall q size,
  wf_ranges q = true -> wf_ranges (truncate_ranges q size) = true.
Proof. exact truncate_wf. Qed.
Print Assumptions C14_truncate_wf.

Theorem C14_truncate_owned_eq : forall q size,
  truncate_ranges_owned q size = truncate_ranges q size.
Proof. exact truncate_owned_eq. Qed.
Print Assumptions C14_truncate_owned_eq.

(* membership strictly below the last chunk is never changed by truncation *)
Theorem C14_truncate_mem_below : forall q size c,
  wf_ranges q = true -> c < nchunks size - 1 ->
  mem (truncate_ranges q size) c = mem q c.
Proof. exact truncate_mem_below. Qed.
Print Assumptions C14_truncate_mem_below.

(* C14_truncate_canonical as first proposed (agreement for all c < nchunks size) is FALSE, see
   C14_truncate_canonical_refuted.  What holds: agreement below the last chunk. *)
Theorem C14_truncate_canonical_below : forall q1 q2 size,
  wf_ranges q1 = true -> wf_ranges q2 = true -> size <= 2 ^ 63 ->
  (forall c, sel q1 size c = sel q2 size c) ->
  forall c, c < nchunks size - 1 ->
    mem (truncate_ranges q1 size) c = mem (truncate_ranges q2 size) c.
Proof. exact truncate_canonical_below_dom. Qed.
Print Assumptions C14_truncate_canonical_below.

Theorem C14_truncate_canonical_refuted :
  exists q1 q2 size c, wf_ranges q1 = true /\ wf_ranges q2 = true /\ size <= 2 ^ 63 /\
    (forall c, sel q1 size c = sel q2 size c) /\ c < nchunks size /\
    mem (truncate_ranges q1 size) c <> mem (truncate_ranges q2 size) c.
Proof. exact truncate_canonical_refuted. Qed.
Print Assumptions C14_truncate_canonical_refuted.

(* membership of the last chunk after truncation *)
Theorem C14_truncate_mem_last : forall q size,
  wf_ranges q = true ->
  let lc := nchunks size - 1 in
  mem (truncate_ranges q size) lc = mem q lc || ((0 <? lc) && mem q (lc - 1) && reaches q (lc + 1)).
Proof. exact truncate_mem_last. Qed.
Print Assumptions C14_truncate_mem_last.

(* canonical form on the whole blob, given that the two queries also agree on the last chunk itself *)
Theorem C14_truncate_canonical_last : forall q1 q2 size,
  wf_ranges q1 = true -> wf_ranges q2 = true -> size <= 2 ^ 63 ->
  (forall c, sel q1 size c = sel q2 size c) ->
  mem q1 (nchunks size - 1) = mem q2 (nchunks size - 1) ->
  forall c, c < nchunks size -> mem (truncate_ranges q1 size) c = mem (truncate_ranges q2 size) c.
Proof. exact truncate_canonical_last_dom. Qed.
Print Assumptions C14_truncate_canonical_last.

(* ======== End-to-end composition (proofs in Proofs/BridgePlan.v, Proofs/E2EMisc.v) ======== *)
From BaoV Require Import Model.Fsm Spec.EncSpec Spec.HashAssm Proofs.E2EGlue Proofs.E2EDecode Proofs.E2EMisc.
From BaoV Require Proofs.BridgePlan.

(* two queries with the same selection have the same honest encoding *)
Theorem C14_encode_equiv : forall (HO : hops) (data : bytes HO) (bs : N) (q1 q2 : ranges),
  (forall c, sel q1 (blen HO data) c = sel q2 (blen HO data) c) ->
  honest HO data bs q1 = honest HO data bs q2.
Proof. exact BridgePlan.bridge_function_of_selection. Qed.
Print Assumptions C14_encode_equiv.

(* ... and the encoding made for one of them is accepted in full by the decoders set up for the other
   (only the decoder's query q2 has to be well formed and non-empty) *)
Theorem C14_cross_decode : forall HO, hash_ok HO ->
  forall (data : bytes HO) (bs : N) (q1 q2 : ranges),
  (blen HO data <= 2 ^ 63)%N -> (bs <= 10)%N -> wf_ranges q2 = true -> q2 <> [] ->
  (forall c, sel q1 (blen HO data) c = sel q2 (blen HO data) c) ->
  forall rest : bytes HO,
  let t := mkTree (blen HO data) bs in
  let root := root_hash HO data in
  let stream := flat HO (honest HO data bs q1) ++ rest in
  honest HO data bs q1 = honest HO data bs q2 /\
  (exists st, dec_run HO (dec_new HO root t stream q2) = (honest HO data bs q1, Finished, st) /\
              d_enc HO st = rest) /\
  (exists st, rd_run HO (rd_new HO root q2 t stream) = (honest HO data bs q1, Finished, st) /\
              Fsm.r_enc HO st = rest).
Proof. exact e2e_cross_decode. Qed.
Print Assumptions C14_cross_decode.
