(* C13 - post-order outboards only grow at the end (geometry part).  Statements only; proofs in Proofs/. *)
From BaoV Require Import Model.Iter Spec.NodeSpec Proofs.ShapeBase Proofs.ShapeIter Proofs.ShapeOffsets Proofs.ShapeLayout.

(* a listed node has a stable slot iff it stores a pair and its whole subtree is inside the blob;
   the other stored nodes have an unstable slot *)
Theorem C13_stable_iff : forall size bs nd, size <= 2 ^ 63 -> bs <= 10 -> In nd (sp_post_nodes size bs) ->
  ((exists v, post_order_offset (mkTree size bs) nd = Some (Stable v)) <->
   (sp_persisted size bs nd = true /\ sp_subtree_inside size nd = true)) /\
  (sp_persisted size bs nd = true -> sp_subtree_inside size nd = false ->
   exists v, post_order_offset (mkTree size bs) nd = Some (Unstable v)).
Proof. exact stable_iff. Qed.
Print Assumptions C13_stable_iff.

(* a stable node keeps its slot when the blob grows (any node) *)
Theorem C13_keeps_slot : forall size bs nd v size', size <= size' -> size' <= 2 ^ 63 ->
  post_order_offset (mkTree size bs) nd = Some (Stable v) ->
  post_order_offset (mkTree size' bs) nd = Some (Stable v).
Proof. exact keeps_slot_bounded. Qed.
Print Assumptions C13_keeps_slot.

(* the size bound is not needed *)
Theorem C13_keeps_slot_unbounded : forall size size' bs nd v, size <= size' ->
  post_order_offset (mkTree size bs) nd = Some (Stable v) ->
  post_order_offset (mkTree size' bs) nd = Some (Stable v).
Proof. exact keeps_slot. Qed.
Print Assumptions C13_keeps_slot_unbounded.

(* all stable slots lie below the number of stable stored nodes, all unstable slots at or above it *)
Theorem C13_layout : forall size bs nd v, size <= 2 ^ 63 -> bs <= 10 -> In nd (sp_post_nodes size bs) ->
  (post_order_offset (mkTree size bs) nd = Some (Stable v) -> v < sp_stable_count size bs) /\
  (post_order_offset (mkTree size bs) nd = Some (Unstable v) -> sp_stable_count size bs <= v).
Proof. exact layout_spec. Qed.
Print Assumptions C13_layout.
