(* C13 - post-order outboards only grow at the end (geometry part).  Statements only; proofs in Proofs/. *)
From BaoV Require Import Model.Iter Spec.NodeSpec Proofs.ShapeBase Proofs.ShapeIter Proofs.ShapeOffsets Proofs.ShapeLayout.

(* a listed node has a stable slot iff it stores a pair and its whole subtree is inside the blob;
   the other stored nodes have an unstable slot *)
Theorem C13_stable_iff : forall size bs nd, size <= 2 ^ 63 -> bs <= 10 -> In nd (sp_post_nodes size bs) ->
  ((exists v, post_order_offset (mkTree size bs) nd = Some (Stable v)) <->
   (sp_persisted size bs nd = true /\ sp_subtree_inside size nd = true)) /\
  (sp_persisted size bs nd = true -> sp_subtree_inside size nd = false ->
   exists v, post_order_offset (mkTree size bs) nd = Some (Unstable v)).
Proof. exact stable_iff. Qed.
Print Assumptions C13_stable_iff.

(* a stable node keeps its slot when the blob grows (any node) *)
Theorem C13_keeps_slot : forall size bs nd v size', size <= size' -> size' <= 2 ^ 63 ->
  post_order_offset (mkTree size bs) nd = Some (Stable v) ->
  post_order_offset (mkTree size' bs) nd = Some (Stable v).
Proof. exact keeps_slot_bounded. Qed.
Print Assumptions C13_keeps_slot.

(* the size bound is not needed *)
Theorem C13_keeps_slot_unbounded : forall size size' bs nd v, size <= size' ->
  post_order_offset (mkTree size bs) nd = Some (Stable v) ->
  post_order_offset (mkTree size' bs) nd = Some (Stable v).
Proof. exact keeps_slot. Qed.
Print Assumptions C13_keeps_slot_unbounded.

(* all stable slots lie below the number of stable stored nodes, all unstable slots at or above it *)
Theorem C13_layout : forall size bs nd v, size <= 2 ^ 63 -> bs <= 10 -> In nd (sp_post_nodes size bs) ->
  (post_order_offset (mkTree size bs) nd = Some (Stable v) -> v < sp_stable_count size bs) /\
  (post_order_offset (mkTree size bs) nd = Some (Unstable v) -> sp_stable_count size bs <= v).
Proof. exact layout_spec. Qed.
Print Assumptions C13_layout.

(* ======== Gap audit (proofs in Proofs/GapStable.v) ========
   G1: the Stable classification of EVERY node id (C13_stable_iff only covers the nodes listed in the tree);
   G2: the exact picture of the slots in traversal order (C13_layout only bounds them);
   G3: growth: the number of blocks and of stable pairs is monotone, the stable stored nodes of a blob are
       exactly the first stored nodes, in post order, of every larger tree. *)
From BaoV Require Import Model.Iter Spec.NodeSpec Proofs.ObPrefix Proofs.GapStable.

(* any u64 node id, any block size, any size: as long as the byte end of the node's subtree does not wrap around
   2^64, the node is classified Stable exactly when it is at or above the block level and its whole subtree
   lies inside the blob *)
Theorem C13_gap_stable_iff_all : forall size bs nd, sp_chunk_end nd * 1024 < 2 ^ 64 ->
  ((exists v, post_order_offset (mkTree size bs) nd = Some (Stable v)) <->
   (bs <= level nd /\ sp_chunk_end nd * 1024 <= size)).
Proof. exact gap_stable_iff_all. Qed.
Print Assumptions C13_gap_stable_iff_all.

Theorem C13_gap_stable_value : forall size bs nd v, post_order_offset (mkTree size bs) nd = Some (Stable v) ->
  bs <= level nd /\ v = post_order_offset_node (nd / 2 ^ bs).
Proof. exact gap_stable_value. Qed.
Print Assumptions C13_gap_stable_value.

(* REFUTED beyond that hypothesis: node 2^53 - 1 covers chunks [0, 2^54); its byte end 2^64 wraps to 0
   (ChunkNum::to_bytes is `self.0 << 10`), so the empty blob classifies it Stable (witness: size 0, block size 0,
   node 2^53 - 1, slot 2^54 - 2) although none of its subtree is inside the blob.  Real behaviour of
   BaoTree::post_order_offset for a node id far outside the tree. *)
Theorem C13_gap_stable_wrap_refuted : exists size bs nd v,
  post_order_offset (mkTree size bs) nd = Some (Stable v) /\ size < sp_chunk_end nd * 1024.
Proof. exact gap_stable_wrap_refuted. Qed.
Print Assumptions C13_gap_stable_wrap_refuted.

(* in traversal order the stored nodes have the slots 0, 1, 2, ...: the first sp_stable_count are Stable, all
   the others Unstable: the stable pairs are a prefix of the outboard with all unstable pairs after them *)
Theorem C13_gap_post_slots_exact : forall size bs, size <= 2 ^ 63 -> bs <= 10 ->
  map (post_order_offset (mkTree size bs)) (filter (sp_persisted size bs) (sp_post_nodes size bs))
  = map (fun i => Some (if N.of_nat i <? sp_stable_count size bs then Stable (N.of_nat i) else Unstable (N.of_nat i)))
        (seq 0 (N.to_nat (sp_blocks size bs - 1))).
Proof. exact gap_post_slots_exact. Qed.
Print Assumptions C13_gap_post_slots_exact.

(* the cut lies inside the outboard (which has sp_blocks - 1 pairs, C03_size) *)
Theorem C13_gap_stable_count_le : forall size bs, size <= 2 ^ 63 -> bs <= 10 ->
  sp_stable_count size bs <= sp_blocks size bs - 1.
Proof. exact gap_stable_count_le. Qed.
Print Assumptions C13_gap_stable_count_le.

Theorem C13_gap_blocks_mono : forall size size' bs, size <= size' -> sp_blocks size bs <= sp_blocks size' bs.
Proof. exact gap_blocks_mono. Qed.
Print Assumptions C13_gap_blocks_mono.

(* the cut only moves forward when the blob grows (any block size) *)
Theorem C13_gap_stable_count_mono : forall size size' bs, size <= size' -> size' <= 2 ^ 63 ->
  sp_stable_count size bs <= sp_stable_count size' bs.
Proof. exact gap_stable_count_mono. Qed.
Print Assumptions C13_gap_stable_count_mono.

(* the stable stored nodes of a blob, in post order, are exactly the first sp_stable_count stored nodes, in post
   order, of the tree of every larger size (size' = size: of its own tree); any block size *)
Theorem C13_gap_stable_nodes_prefix : forall size size' bs, size <= size' -> size' <= 2 ^ 63 ->
  filter (fun nd => sp_persisted size bs nd && sp_subtree_inside size nd) (sp_post_nodes size bs)
  = firstn (N.to_nat (sp_stable_count size bs)) (filter (sp_persisted size' bs) (sp_post_nodes size' bs)).
Proof. exact gap_stable_nodes_prefix. Qed.
Print Assumptions C13_gap_stable_nodes_prefix.

(* a listed node classified Stable is a stored node with its subtree inside the blob in every larger tree *)
Theorem C13_gap_stable_stays_listed : forall size size' bs nd v, size <= size' -> size' <= 2 ^ 63 -> bs <= 10 ->
  In nd (sp_post_nodes size bs) -> post_order_offset (mkTree size bs) nd = Some (Stable v) ->
  In nd (sp_post_nodes size' bs) /\ sp_persisted size' bs nd = true /\ sp_subtree_inside size' nd = true /\
  sp_persisted size bs nd = true /\ sp_subtree_inside size nd = true.
Proof. exact gap_stable_stays_listed. Qed.
Print Assumptions C13_gap_stable_stays_listed.

(* completeness: every node id at or above the block level whose whole subtree lies inside the blob is a stored
   node of the blob's tree (any block size) ... *)
Theorem C13_gap_inside_listed : forall size bs nd, size <= 2 ^ 63 -> bs <= level nd ->
  sp_chunk_end nd * 1024 <= size ->
  In nd (sp_post_nodes size bs) /\ sp_persisted size bs nd = true.
Proof. exact gap_inside_listed. Qed.
Print Assumptions C13_gap_inside_listed.

(* ... hence the node ids classified Stable (byte end not wrapping) are exactly the stable stored nodes of the
   tree, which C13_gap_post_slots_exact places in the first sp_stable_count slots *)
Theorem C13_gap_stable_listed_all : forall size bs nd v, size <= 2 ^ 63 -> sp_chunk_end nd * 1024 < 2 ^ 64 ->
  post_order_offset (mkTree size bs) nd = Some (Stable v) ->
  In nd (sp_post_nodes size bs) /\ sp_persisted size bs nd = true /\ sp_subtree_inside size nd = true.
Proof. exact gap_stable_listed_all. Qed.
Print Assumptions C13_gap_stable_listed_all.
