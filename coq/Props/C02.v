(* C02 statements: the decode side of the round trip, end to end.  The decoders are set up for
   (root hash of the blob, tree of the blob, q) and read the honest encoding honest HO data bs q of
   Spec/EncSpec.v followed by arbitrary further bytes.  Proofs in Proofs/E2E*.v (composition of the
   Bridge, C15 and C01 layers).  That the encoders produce flat HO (honest HO data bs q) is the
   encode side (not stated here). *)
From BaoV Require Import Model.Fsm Spec.EncSpec Spec.HashAssm Spec.RangeSpec.
From BaoV Require Import Proofs.DecForest Proofs.DecRanges Proofs.BridgeLeaves.
From BaoV Require Import Proofs.E2EGlue Proofs.E2EDecode Proofs.E2ERanges Proofs.E2EMisc.

(* decoding the honest encoding yields exactly the honest items, finishes, and leaves what follows unread *)
Theorem C02_roundtrip_sync : forall HO, hash_ok HO ->
  forall (data : bytes HO) (bs : N) (q : ranges),
  (blen HO data <= 2 ^ 63)%N -> (bs <= 10)%N -> wf_ranges q = true -> q <> [] ->
  forall rest : bytes HO,
  exists st,
    dec_run HO (dec_new HO (root_hash HO data) (mkTree (blen HO data) bs)
                        (flat HO (honest HO data bs q) ++ rest) q)
      = (honest HO data bs q, Finished, st) /\
    d_enc HO st = rest.
Proof. exact e2e_roundtrip_sync. Qed.
Print Assumptions C02_roundtrip_sync.

Theorem C02_roundtrip_fsm : forall HO, hash_ok HO ->
  forall (data : bytes HO) (bs : N) (q : ranges),
  (blen HO data <= 2 ^ 63)%N -> (bs <= 10)%N -> wf_ranges q = true -> q <> [] ->
  forall rest : bytes HO,
  exists st,
    rd_run HO (rd_new HO (root_hash HO data) q (mkTree (blen HO data) bs)
                      (flat HO (honest HO data bs q) ++ rest))
      = (honest HO data bs q, Finished, st) /\
    Fsm.r_enc HO st = rest /\ rd_finish HO st = rest.
Proof. exact e2e_roundtrip_fsm. Qed.
Print Assumptions C02_roundtrip_fsm.

(* decode_ranges on the honest encoding applies all honest items (apply_items, Props/C01.v); with
   saves that succeed the result is Ok and the target is write_leaves target (honest ..) *)
Theorem C02_roundtrip_decode_ranges : forall HO, hash_ok HO ->
  forall (data : bytes HO) (bs : N) (q : ranges),
  (blen HO data <= 2 ^ 63)%N -> (bs <= 10)%N -> wf_ranges q = true -> q <> [] ->
  forall (rest target : bytes HO) (ob : outboard HO),
  ob_root ob = root_hash HO data -> ob_tree ob = mkTree (blen HO data) bs ->
  let a := apply_items HO (honest HO data bs q) target ob in
  (exists st', decode_ranges HO (flat HO (honest HO data bs q) ++ rest) q target ob =
               (ranges_result (a_res HO a) Finished, a_target HO a, a_ob HO a, st')) /\
  (exists st', decode_ranges_fsm HO (flat HO (honest HO data bs q) ++ rest) q target ob =
               (ranges_result (a_res HO a) Finished, a_target HO a, a_ob HO a, st')).
Proof. exact e2e_decode_ranges_roundtrip. Qed.
Print Assumptions C02_roundtrip_decode_ranges.

(* the leaves of the honest encoding, written into any target of the blob's length (write_leaves,
   Props/Bridge.v), deliver exactly the selection: the result agrees with the blob on every selected
   chunk and with the old target on every other chunk; each leaf is the run [s, e) of selected chunks
   of one chunk group, at byte offset s * 1024 *)
Theorem C02_delivers_selection : forall HO (data target : bytes HO) (bs : N) (q : ranges),
  (blen HO data <= 2 ^ 63)%N -> length target = length data ->
  let size := blen HO data in
  let out := write_leaves HO target (honest HO data bs q) in
  (blen HO out = size /\
   forall c, (c < nchunks size)%N ->
     chunk_bytes HO out c (c + 1) =
     if sel q size c then chunk_bytes HO data c (c + 1) else chunk_bytes HO target c (c + 1)) /\
  (forall off d, In (ILeaf off d) (honest HO data bs q) ->
     exists s e, (off = s * 1024 /\ s < e /\ e <= nchunks size /\ e - s <= 2 ^ bs)%N /\
                 d = chunk_bytes HO data s e /\ (forall c, (s <= c < e)%N -> sel q size c = true)).
Proof. exact e2e_delivers_selection. Qed.
Print Assumptions C02_delivers_selection.

(* the empty query: nothing is encoded, the plan is empty (pp_new pushes nothing), both decoders
   finish immediately without consuming anything - for any root, tree and stream *)
Theorem C02_empty_query : forall HO (data stream : bytes HO) (bs : N) (root : hash HO) (t : tree),
  honest HO data bs [] = [] /\
  response_iter t [] = [] /\
  (exists st, dec_run HO (dec_new HO root t stream []) = ([], Finished, st) /\ d_enc HO st = stream) /\
  (exists st, rd_run HO (rd_new HO root [] t stream) = ([], Finished, st) /\ Fsm.r_enc HO st = stream).
Proof. exact e2e_empty_query. Qed.
Print Assumptions C02_empty_query.

(* ======== Final composition (proofs in Proofs/FinalStore.v, Proofs/FinalEnc.v): the full round trip ========
   created_store HO data bs ob (Props/C03.v: C03_created_store_def; every store returned by a creation entry
   point satisfies it: C03_created_by_store).  The stored_ok premise of C02_enc_is_spec_* is discharged by
   C03_created_store_intact: the parents of the encoder's plan are persisted nodes of the Shape
   (C04_enc_nodes_persisted). *)
From BaoV Require Import Model.Sync Proofs.FinalStore Proofs.FinalEnc.

(* encode on a created store, decode with the store's root and tree: the items are the honest ones, the
   decoder finishes and leaves exactly what follows the encoding; the empty query encodes to nothing
   (and decodes nothing: C02_empty_query) *)
Theorem C02_roundtrip_full_sync : forall (HO : hops), hash_ok HO ->
  forall (data : bytes HO) (bs : N), (blen HO data <= 2 ^ 63)%N -> (bs <= 10)%N ->
  forall ob : outboard HO, created_store HO data bs ob ->
  forall q : ranges, wf_ranges q = true ->
  exists enc, encode_ranges_validated HO data ob q = (Ok tt, enc) /\ enc = flat HO (honest HO data bs q) /\
    (q = [] -> enc = []) /\
    (q <> [] -> forall rest : bytes HO, exists st,
       dec_run HO (dec_new HO (ob_root ob) (ob_tree ob) (enc ++ rest) q) = (honest HO data bs q, Finished, st) /\
       d_enc HO st = rest).
Proof. exact c02_roundtrip_full_sync. Qed.
Print Assumptions C02_roundtrip_full_sync.

Theorem C02_roundtrip_full_fsm : forall (HO : hops), hash_ok HO ->
  forall (data : bytes HO) (bs : N), (blen HO data <= 2 ^ 63)%N -> (bs <= 10)%N ->
  forall ob : outboard HO, created_store HO data bs ob ->
  forall q : ranges, wf_ranges q = true ->
  exists enc, encode_ranges_validated_fsm HO data ob q = (Ok tt, enc) /\ enc = flat HO (honest HO data bs q) /\
    (q = [] -> enc = []) /\
    (q <> [] -> forall rest : bytes HO, exists st,
       rd_run HO (rd_new HO (ob_root ob) q (ob_tree ob) (enc ++ rest)) = (honest HO data bs q, Finished, st) /\
       Fsm.r_enc HO st = rest /\ rd_finish HO st = rest).
Proof. exact c02_roundtrip_full_fsm. Qed.
Print Assumptions C02_roundtrip_full_fsm.

(* encode on a created store (sync and fsm give the same bytes), decode_ranges (sync and fsm) into any target
   and any sink store carrying the blob's root and tree: all honest items are applied (apply_items, Props/C01.v) *)
Theorem C02_roundtrip_full_decode_ranges : forall (HO : hops), hash_ok HO ->
  forall (data : bytes HO) (bs : N), (blen HO data <= 2 ^ 63)%N -> (bs <= 10)%N ->
  forall ob : outboard HO, created_store HO data bs ob ->
  forall q : ranges, wf_ranges q = true -> q <> [] ->
  forall (rest target : bytes HO) (sink : outboard HO),
  ob_root sink = root_hash HO data -> ob_tree sink = mkTree (blen HO data) bs ->
  forall enc1 enc2,
  encode_ranges_validated HO data ob q = (Ok tt, enc1) ->
  encode_ranges_validated_fsm HO data ob q = (Ok tt, enc2) ->
  enc1 = enc2 /\
  let a := apply_items HO (honest HO data bs q) target sink in
  (exists st', decode_ranges HO (enc1 ++ rest) q target sink =
               (ranges_result (a_res HO a) Finished, a_target HO a, a_ob HO a, st')) /\
  (exists st', decode_ranges_fsm HO (enc1 ++ rest) q target sink =
               (ranges_result (a_res HO a) Finished, a_target HO a, a_ob HO a, st')).
Proof. exact c02_roundtrip_full_decode_ranges. Qed.
Print Assumptions C02_roundtrip_full_decode_ranges.

(* ---- end to end: create, encode, decode into zeros (Proofs/E2EDownload*.v) ---- *)
From BaoV Require Import Model.IO Spec.RangeSpec Spec.EncSpec Spec.HashAssm
  Proofs.HistOb Proofs.HistEnc Proofs.HistInv Proofs.HistStep Proofs.FinalStore
  Proofs.E2EDownload Proofs.E2EDownloadStep Proofs.E2EDownloadConv.

(* the validating encoders (sync, fsm) on a created store emit the same bytes enc; a fault-free decode step (sync or
   fsm) reading enc followed by any bytes, from any state of the history invariant, adds exactly the selection
   of q to the delivered set *)
Theorem C02_e2e_create_encode_decode : forall (HO : hops), hash_ok HO ->
  forall (data : bytes HO) (bs : N), (blen HO data <= 2 ^ 63)%N -> (bs <= 10)%N ->
  forall ob : outboard HO, created_store HO data bs ob ->
  forall q : ranges, wf_ranges q = true ->
  exists enc : bytes HO,
    encode_ranges_validated HO data ob q = (Ok tt, enc) /\
    encode_ranges_validated_fsm HO data ob q = (Ok tt, enc) /\
    forall (D : N -> bool) (st : bytes HO * outboard HO) (rest : bytes HO) (fsm : bool),
    Inv HO data bs D st ->
    Inv HO data bs (fun c => D c || sel q (blen HO data) c)
        (hist_step HO st (mkOp HO q (enc ++ rest) no_faults fsm)).
Proof. exact e2e_create_encode_decode. Qed.
Print Assumptions C02_e2e_create_encode_decode.

(* the provider holds a created store and encodes ChunkRanges::all() = [0]; a requester that knows only the root
   hash and the size (the all-zero initial state of any kind k) decodes the stream, followed by any bytes, with
   either decoder and ends with the blob and the blob's created store - the provider's store itself when the
   kinds agree *)
Theorem C02_e2e_download_all : forall (HO : hops), hash_ok HO ->
  forall (data : bytes HO) (bs : N), (blen HO data <= 2 ^ 63)%N -> (bs <= 10)%N ->
  forall ob : outboard HO, created_store HO data bs ob ->
  exists enc : bytes HO,
    encode_ranges_validated HO data ob [0%N] = (Ok tt, enc) /\
    encode_ranges_validated_fsm HO data ob [0%N] = (Ok tt, enc) /\
    forall k, hist_kind k -> forall (rest : bytes HO) (fsm : bool),
    fst (hist_step HO (init_target HO data, init_ob HO data bs k) (mkOp HO [0%N] (enc ++ rest) no_faults fsm)) = data /\
    created_store HO data bs
      (snd (hist_step HO (init_target HO data, init_ob HO data bs k) (mkOp HO [0%N] (enc ++ rest) no_faults fsm))) /\
    (k = ob_k ob ->
     snd (hist_step HO (init_target HO data, init_ob HO data bs k) (mkOp HO [0%N] (enc ++ rest) no_faults fsm)) = ob).
Proof. exact e2e_download_all. Qed.
Print Assumptions C02_e2e_download_all.

(* ======== Gap audit H (proofs in Proofs/GapHNodes.v, GapHShort.v, GapHFault.v, GapHRound.v, GapHMixed.v) ========
   (i)   decode_ranges (sync and fsm) of the honest encoding into a target of ANY length and content and EVERY sink
         of the crate: Ok, reader exactly at the end, exactly the honest leaves written and the honest pairs stored;
         the leaves are disjoint runs in increasing order: every selected chunk in exactly one, no other in any;
   (ii)  the NON-validating encoders where legitimate (groups_full; every query at block size 0);
   (iii) encoder geometry from the store vs decoder geometry given separately; store intact on the plan only;
   (iv)  the item stream of mixed.rs. *)
From BaoV Require Import Model.IO Model.Sync Model.Fsm Spec.RangeSpec Spec.PlanWf Spec.NodeSpec Spec.EncSpec Spec.HashAssm.
From BaoV Require Import Proofs.BridgeLeaves Proofs.DecForest Proofs.DecRanges Proofs.EncThm Proofs.EncNonval Proofs.ValSpec
  Proofs.HistOb Proofs.HistEnc Proofs.HistInv Proofs.FinalStore Proofs.GapValFsmView
  Proofs.GapTarget Proofs.GapHNodes Proofs.GapHFrame Proofs.GapHShort Proofs.GapHFault Proofs.GapHRound Proofs.GapHExtra Proofs.GapHMixed Proofs.GapHMixedC.
Local Open Scope N_scope.

(* ---- the items of the honest encoding ---- *)

(* every parent item names a node that stores a pair (a persisted node of the Shape) or lies below the block level (every outboard ignores it) *)
Theorem C02_honest_parent_class : forall (HO : hops) (data : bytes HO) (bs : N) (q : ranges),
  wf_ranges q = true -> blen HO data <= 2 ^ 63 -> bs <= 10 ->
  forall nd l r, In (IParent nd l r) (honest HO data bs q) ->
  pnode (blen HO data) bs nd \/ level nd < bs.
Proof. exact honest_parent_class. Qed.
Print Assumptions C02_honest_parent_class.

Theorem C02_leaf_runs_def : forall (HO : hops),
  leaf_runs HO [] = [] /\
  (forall off d ys, leaf_runs HO (ILeaf off d :: ys) = (off / 1024, off / 1024 + leaf_chunks (blen HO d)) :: leaf_runs HO ys) /\
  (forall nd l r ys, leaf_runs HO (IParent nd l r :: ys) = leaf_runs HO ys).
Proof. exact gaph_leaf_runs_def. Qed.
Print Assumptions C02_leaf_runs_def.

Theorem C02_runs_sorted_def : forall (lo hi : N),
  (runs_sorted lo [] hi <-> lo <= hi) /\
  (forall s e l, runs_sorted lo ((s, e) :: l) hi <-> lo <= s /\ s < e /\ runs_sorted e l hi).
Proof. exact gaph_runs_sorted_def. Qed.
Print Assumptions C02_runs_sorted_def.

(* the leaves are runs [s, e) of chunks with 0 <= s1 < e1 <= s2 < e2 <= ... <= nchunks: increasing offsets, no overlap *)
Theorem C02_leaves_sorted : forall (HO : hops) (data : bytes HO) (bs : N) (q : ranges),
  blen HO data <= 2 ^ 63 ->
  runs_sorted 0 (leaf_runs HO (honest HO data bs q)) (nchunks (blen HO data)).
Proof. exact honest_leaves_sorted. Qed.
Print Assumptions C02_leaves_sorted.

Theorem C02_holders_def : forall (HO : hops) (ys : list (item HO)) (c : N),
  holders HO ys c = length (filter (fun it => item_has HO it c) ys).
Proof. exact gaph_holders_def. Qed.
Print Assumptions C02_holders_def.

(* each selected chunk is delivered exactly once, no other chunk at all *)
Theorem C02_each_once : forall (HO : hops) (data : bytes HO) (bs : N) (q : ranges) (c : N),
  wf_ranges q = true -> blen HO data <= 2 ^ 63 -> bs <= 10 -> c < nchunks (blen HO data) ->
  holders HO (honest HO data bs q) c = if sel q (blen HO data) c then 1%nat else 0%nat.
Proof. exact honest_each_once. Qed.
Print Assumptions C02_each_once.

(* ---- (i) every sink ----
   ob_pad: the store with its bytes cut / zero-extended to (blocks - 1) * 64 (Props/C07.v, C07_short_defs; the identity
   on pre-sized stores: C07_short_pad_id); saved ys nd: nd is the node of a parent item of ys (C07_saved_def) *)

Theorem C02_sink_ok_def : forall (HO : hops) (data : bytes HO) (bs : N) (ob : outboard HO),
  sink_ok HO data bs ob <-> (is_io (ob_k ob) = true \/ ob_k ob = EmptyOb \/ ob_sized HO ob (blen HO data) bs).
Proof. exact gaph_sink_ok_def. Qed.
Print Assumptions C02_sink_ok_def.

Theorem C02_roundtrip_sinks : forall (HO : hops), hash_ok HO ->
  forall (data : bytes HO) (bs : N), blen HO data <= 2 ^ 63 -> bs <= 10 ->
  forall (q : ranges) (rest target : bytes HO) (sink : outboard HO), wf_ranges q = true ->
  ob_root sink = root_hash HO data -> ob_tree sink = mkTree (blen HO data) bs -> sink_ok HO data bs sink ->
  exists ob',
    (exists st', decode_ranges HO (flat HO (honest HO data bs q) ++ rest) q target sink =
                 (Ok tt, write_leaves HO target (honest HO data bs q), ob', st') /\ d_enc HO st' = rest) /\
    (exists st', decode_ranges_fsm HO (flat HO (honest HO data bs q) ++ rest) q target sink =
                 (Ok tt, write_leaves HO target (honest HO data bs q), ob', st') /\ Fsm.r_enc HO st' = rest) /\
    apply_items HO (honest HO data bs q) target sink = (SOk, write_leaves HO target (honest HO data bs q), ob') /\
    ob_k ob' = ob_k sink /\ ob_root ob' = ob_root sink /\ ob_tree ob' = ob_tree sink /\
    (ob_k sink = EmptyOb -> ob' = sink) /\
    (hist_kind (ob_k sink) -> forall nd, pnode (blen HO data) bs nd ->
       stored_pair HO (ob_pad HO data bs ob') nd =
       if saved HO (honest HO data bs q) nd then Some (true_pair HO data nd)
       else stored_pair HO (ob_pad HO data bs sink) nd) /\
    skipn (N.to_nat ((sp_blocks (blen HO data) bs - 1) * 64)) (ob_data ob') =
      skipn (N.to_nat ((sp_blocks (blen HO data) bs - 1) * 64)) (ob_data sink).
Proof. exact gaph_roundtrip_sinks. Qed.
Print Assumptions C02_roundtrip_sinks.

Theorem C02_sinks_nonvacuous : forall (HO : hops) (data : bytes HO) (bs : N), blen HO data <= 2 ^ 63 -> bs <= 10 ->
  forall k : ob_kind, exists sink : outboard HO,
    ob_k sink = k /\ ob_root sink = root_hash HO data /\ ob_tree sink = mkTree (blen HO data) bs /\ sink_ok HO data bs sink.
Proof. exact gaph_sinks_nonvacuous. Qed.
Print Assumptions C02_sinks_nonvacuous.

(* the bytes of that target (pad: Props/C01.v, C01_pad_def): nothing from the blob's length on is touched, the target never shrinks, below the blob's length exactly the selected chunks are the blob's and every other chunk keeps its (zero-extended) old bytes *)
Theorem C02_roundtrip_sinks_bytes : forall (HO : hops), hash_ok HO ->
  forall (data : bytes HO) (bs : N), blen HO data <= 2 ^ 63 -> bs <= 10 ->
  forall (q : ranges) (target : bytes HO), wf_ranges q = true ->
  let n := length data in
  let target' := write_leaves HO target (honest HO data bs q) in
  skipn n target' = skipn n target /\ (length target <= length target')%nat /\
  (forall c, c < nchunks (blen HO data) ->
     chunk_bytes HO (pad HO n target') c (c + 1) =
     if sel q (blen HO data) c then chunk_bytes HO data c (c + 1) else chunk_bytes HO (pad HO n target) c (c + 1)) /\
  (length target = length data -> length target' = length data /\
     forall c, c < nchunks (blen HO data) ->
       chunk_bytes HO target' c (c + 1) =
       if sel q (blen HO data) c then chunk_bytes HO data c (c + 1) else chunk_bytes HO target c (c + 1)).
Proof. exact roundtrip_sinks_bytes. Qed.
Print Assumptions C02_roundtrip_sinks_bytes.

(* any prefix of the honest encoding (a truncated stream) applied to any sink *)
Theorem C02_sink_apply : forall (HO : hops), hash_ok HO ->
  forall (data : bytes HO) (bs : N), blen HO data <= 2 ^ 63 -> bs <= 10 ->
  forall (q : ranges) (ys : list (item HO)) (t : bytes HO) (ob : outboard HO),
  wf_ranges q = true -> is_prefix ys (honest HO data bs q) ->
  ob_tree ob = mkTree (blen HO data) bs -> sink_ok HO data bs ob ->
  exists ob', apply_items HO ys t ob = (SOk, write_leaves HO t ys, ob') /\
    ob_k ob' = ob_k ob /\ ob_root ob' = ob_root ob /\ ob_tree ob' = ob_tree ob /\
    (ob_k ob = EmptyOb -> ob' = ob) /\
    (hist_kind (ob_k ob) -> forall nd, pnode (blen HO data) bs nd ->
       stored_pair HO (ob_pad HO data bs ob') nd =
       if saved HO ys nd then Some (true_pair HO data nd) else stored_pair HO (ob_pad HO data bs ob) nd) /\
    skipn (N.to_nat ((sp_blocks (blen HO data) bs - 1) * 64)) (ob_data ob') =
      skipn (N.to_nat ((sp_blocks (blen HO data) bs - 1) * 64)) (ob_data ob) /\
    blen HO (ob_data ob) <= blen HO (ob_data ob').
Proof. exact gaph_sink_apply. Qed.
Print Assumptions C02_sink_apply.

(* ---- (iii) the two geometries; a store intact on the plan only ---- *)

(* both decoders on the honest encoding of EVERY well-formed query (the empty one included), set up from three separate values *)
Theorem C02_decoders_roundtrip_any : forall (HO : hops), hash_ok HO ->
  forall (data : bytes HO) (bs : N) (q : ranges), blen HO data <= 2 ^ 63 -> bs <= 10 -> wf_ranges q = true ->
  forall (root : hash HO) (size' bs' : N), root = root_hash HO data -> size' = blen HO data -> bs' = bs ->
  forall rest : bytes HO,
  (exists st, dec_run HO (dec_new HO root (mkTree size' bs') (flat HO (honest HO data bs q) ++ rest) q)
              = (honest HO data bs q, Finished, st) /\ d_enc HO st = rest) /\
  (exists st, rd_run HO (rd_new HO root q (mkTree size' bs') (flat HO (honest HO data bs q) ++ rest))
              = (honest HO data bs q, Finished, st) /\ Fsm.r_enc HO st = rest).
Proof. exact decoders_roundtrip_any. Qed.
Print Assumptions C02_decoders_roundtrip_any.

(* the encoder reads its geometry (size, block size, root) from the store, the decoder gets (root, size, block size) separately; when the store's claims are the blob's and its pairs are intact on the parents of the encoder's plan - whatever else it holds - the round trip holds for the decoder given the same three values *)
Theorem C02_roundtrip_intact_plan : forall (HO : hops), hash_ok HO ->
  forall (data : bytes HO) (bs : N) (q : ranges), blen HO data <= 2 ^ 63 -> bs <= 10 -> wf_ranges q = true ->
  forall ob : outboard HO,
  ob_tree ob = mkTree (blen HO data) bs -> ob_root ob = root_hash HO data ->
  forall (root : hash HO) (size' bs' : N), root = ob_root ob -> mkTree size' bs' = ob_tree ob ->
  ((forall nd, In nd (enc_nodes (blen HO data) bs q) -> stored_ok HO data ob nd) ->
   exists enc, encode_ranges_validated HO data ob q = (Ok tt, enc) /\ enc = flat HO (honest HO data bs q) /\
     forall rest : bytes HO,
     (exists st, dec_run HO (dec_new HO root (mkTree size' bs') (enc ++ rest) q) = (honest HO data bs q, Finished, st) /\
                 d_enc HO st = rest) /\
     (exists st, rd_run HO (rd_new HO root q (mkTree size' bs') (enc ++ rest)) = (honest HO data bs q, Finished, st) /\
                 Fsm.r_enc HO st = rest)) /\
  ((forall nd, In nd (enc_nodes (blen HO data) bs q) -> stored_ok_fsm HO data ob nd) ->
   exists enc, encode_ranges_validated_fsm HO data ob q = (Ok tt, enc) /\ enc = flat HO (honest HO data bs q) /\
     forall rest : bytes HO,
     (exists st, dec_run HO (dec_new HO root (mkTree size' bs') (enc ++ rest) q) = (honest HO data bs q, Finished, st) /\
                 d_enc HO st = rest) /\
     (exists st, rd_run HO (rd_new HO root q (mkTree size' bs') (enc ++ rest)) = (honest HO data bs q, Finished, st) /\
                 Fsm.r_enc HO st = rest)).
Proof. exact roundtrip_intact_plan. Qed.
Print Assumptions C02_roundtrip_intact_plan.

(* a store that is intact on the plan without being a created store: 64 of 128 bytes *)
Theorem C02_intact_plan_nonvacuous :
  exists (HO : hops) (data : bytes HO) (bs : N) (q : ranges) (ob : outboard HO),
    hash_ok HO /\ blen HO data <= 2 ^ 63 /\ bs <= 10 /\ wf_ranges q = true /\ q <> [] /\
    ob_tree ob = mkTree (blen HO data) bs /\ ob_root ob = root_hash HO data /\
    enc_nodes (blen HO data) bs q = [1] /\
    (forall nd, In nd (enc_nodes (blen HO data) bs q) -> stored_ok HO data ob nd) /\
    (forall nd, In nd (enc_nodes (blen HO data) bs q) -> stored_ok_fsm HO data ob nd) /\
    blen HO (ob_data ob) = 64 /\ sp_blocks (blen HO data) bs = 3 /\ ~ created_store HO data bs ob.
Proof. exact intact_plan_nonvacuous. Qed.
Print Assumptions C02_intact_plan_nonvacuous.

(* ---- (ii) the non-validating encoders ---- *)

Theorem C02_groups_full_bs0 : forall (q : ranges) (size : N), groups_full 0 q size.
Proof. exact groups_full_bs0. Qed.
Print Assumptions C02_groups_full_bs0.

(* on a created store, when every touched chunk group is fully selected: the bytes are the honest encoding and decode with the same query, by both decoders and both drivers into every sink *)
Theorem C02_nonval_roundtrip : forall (HO : hops), hash_ok HO ->
  forall (data : bytes HO) (bs : N), blen HO data <= 2 ^ 63 -> bs <= 10 ->
  forall ob : outboard HO, created_store HO data bs ob ->
  forall q : ranges, wf_ranges q = true -> groups_full bs q (blen HO data) ->
  exists enc, encode_ranges HO data ob q = (Ok tt, enc) /\ encode_ranges_fsm HO data ob q = (Ok tt, enc) /\
    enc = flat HO (honest HO data bs q) /\
    (forall rest : bytes HO,
       (exists st, dec_run HO (dec_new HO (ob_root ob) (ob_tree ob) (enc ++ rest) q) = (honest HO data bs q, Finished, st) /\
                   d_enc HO st = rest) /\
       (exists st, rd_run HO (rd_new HO (ob_root ob) q (ob_tree ob) (enc ++ rest)) = (honest HO data bs q, Finished, st) /\
                   Fsm.r_enc HO st = rest)) /\
    (forall (rest target : bytes HO) (sink : outboard HO),
       ob_root sink = ob_root ob -> ob_tree sink = ob_tree ob -> sink_ok HO data bs sink ->
       exists ob',
         apply_items HO (honest HO data bs q) target sink = (SOk, write_leaves HO target (honest HO data bs q), ob') /\
         (exists st', decode_ranges HO (enc ++ rest) q target sink =
                      (Ok tt, write_leaves HO target (honest HO data bs q), ob', st') /\ d_enc HO st' = rest) /\
         (exists st', decode_ranges_fsm HO (enc ++ rest) q target sink =
                      (Ok tt, write_leaves HO target (honest HO data bs q), ob', st') /\ Fsm.r_enc HO st' = rest)).
Proof. exact nonval_roundtrip. Qed.
Print Assumptions C02_nonval_roundtrip.

(* at block size 0: every well-formed query *)
Theorem C02_nonval_roundtrip_bs0 : forall (HO : hops), hash_ok HO ->
  forall (data : bytes HO), blen HO data <= 2 ^ 63 ->
  forall ob : outboard HO, created_store HO data 0 ob ->
  forall q : ranges, wf_ranges q = true ->
  exists enc, encode_ranges HO data ob q = (Ok tt, enc) /\ encode_ranges_fsm HO data ob q = (Ok tt, enc) /\
    enc = flat HO (honest HO data 0 q) /\
    forall rest : bytes HO,
      (exists st, dec_run HO (dec_new HO (ob_root ob) (ob_tree ob) (enc ++ rest) q) = (honest HO data 0 q, Finished, st) /\
                  d_enc HO st = rest) /\
      (exists st, rd_run HO (rd_new HO (ob_root ob) q (ob_tree ob) (enc ++ rest)) = (honest HO data 0 q, Finished, st) /\
                  Fsm.r_enc HO st = rest).
Proof. exact nonval_roundtrip_bs0. Qed.
Print Assumptions C02_nonval_roundtrip_bs0.

(* ---- (iv) the item stream of mixed.rs (traverse_ranges_validated) ----
   The items are NOT the decoder's items: inside a partially selected chunk group the crate sends parents with
   TreeNode(0) (src/io/mixed.rs:262, 292: 'todo: figure out how to get the tree node from the start chunk') and
   one leaf per CHUNK where the decoder yields the real node ids and one leaf per fully selected subtree.  What
   holds: the bytes are the honest encoding (C08_mixed_frame), and fed item by item to any target and any sink of
   the blob's geometry the items have exactly the effect of the honest items. *)

(* the recursive specification of traverse_selected_rec inside one chunk group *)
Theorem C02_mix_rec_def : forall (HO : hops) (data : bytes HO) (Sel : N -> bool) (a b : N),
  mix_rec HO 0 data Sel a b = [] /\
  forall f, mix_rec HO (S f) data Sel a b =
    if negb (existsb Sel (chunk_range_list a b)) then []
    else if b - a <=? 1 then [ILeaf (a * 1024) (chunk_bytes HO data a b)]
    else
      (if forallb Sel (chunk_range_list a b) then []
       else [IParent 0 (cv HO data a (a + next_pow2 (b - a) / 2) false) (cv HO data (a + next_pow2 (b - a) / 2) b false)])
      ++ mix_rec HO f data Sel a (a + next_pow2 (b - a) / 2) ++ mix_rec HO f data Sel (a + next_pow2 (b - a) / 2) b.
Proof. exact gaph_mix_rec_def. Qed.
Print Assumptions C02_mix_rec_def.

(* one unit of the encoder's plan as the item stream sends it *)
Theorem C02_mixed_unit_spec_def : forall (HO : hops) (data : bytes HO) (bs : N) (q : ranges),
  (forall nd ir lf rt rs, mixed_unit_spec HO data bs q (CParent nd ir lf rt rs) =
     [IParent nd (fst (true_pair HO data nd)) (snd (true_pair HO data nd))]) /\
  (forall s sz ir rs, mixed_unit_spec HO data bs q (CLeaf s sz ir rs) =
     if r_is_all rs then [ILeaf (s * 1024) (chunk_bytes HO data s (N.min (s + 2 ^ bs) (nchunks (blen HO data))))]
     else mix_rec HO 64 data (sel q (blen HO data)) s (N.min (s + 2 ^ bs) (nchunks (blen HO data)))).
Proof. exact gaph_mixed_unit_spec_def. Qed.
Print Assumptions C02_mixed_unit_spec_def.

(* mixed_items: unit by unit of the encoder's own plan *)
Theorem C02_mixed_items_def : forall (HO : hops) (data : bytes HO) (bs : N) (q : ranges),
  blen HO data <= 2 ^ 63 -> bs <= 10 ->
  mixed_items HO data bs q =
  concat (map (mixed_unit_spec HO data bs q)
              (pre_order_chunks_iter (mkTree (blen HO data) bs) (truncate_ranges q (blen HO data)) 0)).
Proof. exact gaph_mixed_items_def. Qed.
Print Assumptions C02_mixed_items_def.

(* on a store intact on the parents of the plan: the stream is Size, exactly mixed_items, Done; same bytes, same leaves written, same effect on every target and every sink with the blob's geometry (any kind, any length) as the honest items *)
Theorem C02_mixed_stream : forall (HO : hops), hash_ok HO ->
  forall (data : bytes HO) (bs : N), blen HO data <= 2 ^ 63 -> bs <= 10 -> forall q : ranges, wf_ranges q = true ->
  forall ob : outboard HO, ob_tree ob = mkTree (blen HO data) bs -> ob_root ob = root_hash HO data ->
  (forall nd, In nd (enc_nodes (blen HO data) bs q) -> stored_ok HO data ob nd) ->
  traverse_ranges_validated HO data ob q =
    Some (ESize (blen HO data) :: map EItem (mixed_items HO data bs q) ++ [EDone]) /\
  concat (map (item_bytes HO) (mixed_items HO data bs q)) = flat HO (honest HO data bs q) /\
  (forall target : bytes HO,
     write_leaves HO target (mixed_items HO data bs q) = write_leaves HO target (honest HO data bs q)) /\
  (forall (target : bytes HO) (sink : outboard HO), ob_tree sink = mkTree (blen HO data) bs ->
     apply_items HO (mixed_items HO data bs q) target sink = apply_items HO (honest HO data bs q) target sink) /\
  (forall (target : bytes HO) (sink : outboard HO), ob_tree sink = mkTree (blen HO data) bs -> sink_ok HO data bs sink ->
     exists ob', apply_items HO (mixed_items HO data bs q) target sink =
                 (SOk, write_leaves HO target (honest HO data bs q), ob')).
Proof. exact gaph_mixed_stream. Qed.
Print Assumptions C02_mixed_stream.

(* its leaves: runs of selected chunks of the blob at their offsets - a single chunk, or a whole fully selected chunk group *)
Theorem C02_mixed_leaves : forall (HO : hops) (data : bytes HO) (bs : N), blen HO data <= 2 ^ 63 -> bs <= 10 ->
  forall q : ranges, wf_ranges q = true ->
  forall off (d : bytes HO), In (ILeaf off d) (mixed_items HO data bs q) ->
  exists s e, off = s * 1024 /\ d = chunk_bytes HO data s e /\ s < e /\ e <= nchunks (blen HO data) /\
    (forall x, s <= x -> x < e -> sel q (blen HO data) x = true) /\
    (e = s + 1 \/ (e = N.min (s + 2 ^ bs) (nchunks (blen HO data)) /\ exists ga, s = ga * 2 ^ bs)).
Proof. exact gaph_mixed_leaves. Qed.
Print Assumptions C02_mixed_leaves.

(* the items differ from the honest items: 4 chunks, one chunk group of 4 (block size 2), chunks 0 and 1 selected: the stream is Parent(node 0), Leaf(0, 1024 bytes), Leaf(1024, 1024 bytes); the decoder's items are Parent(node 1), Leaf(0, 2048 bytes) *)
Theorem C02_mixed_items_refuted :
  exists (HO : hops) (data : bytes HO) (bs : N) (ob : outboard HO) (q : ranges) (its : list (item HO)),
    hash_ok HO /\ blen HO data <= 2 ^ 63 /\ bs <= 10 /\ wf_ranges q = true /\ created_store HO data bs ob /\
    ob_k ob = PreMem /\ ob_data ob = [] /\
    traverse_ranges_validated HO data ob q = Some (ESize (blen HO data) :: map EItem its ++ [EDone]) /\
    its <> honest HO data bs q /\
    length its = 3%nat /\ length (honest HO data bs q) = 2%nat /\
    (exists l r, nth 0 its (ILeaf 0 []) = IParent 0 l r) /\
    (exists d, nth 1 its (ILeaf 0 []) = ILeaf 0 d /\ blen HO d = 1024) /\
    (exists d, nth 2 its (ILeaf 0 []) = ILeaf 1024 d /\ blen HO d = 1024) /\
    (exists l r, nth 0 (honest HO data bs q) (ILeaf 0 []) = IParent 1 l r) /\
    (exists d, nth 1 (honest HO data bs q) (ILeaf 0 []) = ILeaf 0 d /\ blen HO d = 2048).
Proof. exact mixed_items_refuted. Qed.
Print Assumptions C02_mixed_items_refuted.

Theorem C02_mixed_nonvacuous :
  exists (HO : hops) (data : bytes HO) (bs : N) (q : ranges) (ob : outboard HO),
    hash_ok HO /\ blen HO data <= 2 ^ 63 /\ bs <= 10 /\ wf_ranges q = true /\ created_store HO data bs ob /\
    ob_tree ob = mkTree (blen HO data) bs /\ ob_root ob = root_hash HO data /\
    (forall nd, In nd (enc_nodes (blen HO data) bs q) -> stored_ok HO data ob nd) /\
    enc_nodes (blen HO data) bs q = [3] /\
    mixed_items HO data bs q <> honest HO data bs q /\
    length (mixed_items HO data bs q) = 4%nat /\ length (honest HO data bs q) = 3%nat /\
    (forall k : ob_kind, exists sink : outboard HO,
       ob_k sink = k /\ ob_tree sink = mkTree (blen HO data) bs /\ sink_ok HO data bs sink).
Proof. exact mixed_apply_nonvacuous. Qed.
Print Assumptions C02_mixed_nonvacuous.

(* ---- collision form (Proofs/Collision.v; depends on Classical_Prop.classic and on nothing else): the idealised hypothesis
   cv_injective is dropped; under 32-byte outputs and a correct byte comparison the conclusion holds OR the hash functions
   have a collision between two distinct valid inputs ---- *)
From BaoV Require Import Proofs.Collision.
Theorem C02_roundtrip_full_decode_ranges_or_collision : forall (HO : hops), cv_len32 HO -> beq_correct HO ->
  (forall (data : bytes HO) (bs : N), (blen HO data <= 2 ^ 63)%N -> (bs <= 10)%N ->
  forall ob : outboard HO, created_store HO data bs ob ->
  forall q : ranges, wf_ranges q = true -> q <> [] ->
  forall (rest target : bytes HO) (sink : outboard HO),
  ob_root sink = root_hash HO data -> ob_tree sink = mkTree (blen HO data) bs ->
  forall enc1 enc2,
  encode_ranges_validated HO data ob q = (Ok tt, enc1) ->
  encode_ranges_validated_fsm HO data ob q = (Ok tt, enc2) ->
  enc1 = enc2 /\
  let a := apply_items HO (honest HO data bs q) target sink in
  (exists st', decode_ranges HO (enc1 ++ rest) q target sink =
               (ranges_result (a_res HO a) Finished, a_target HO a, a_ob HO a, st')) /\
  (exists st', decode_ranges_fsm HO (enc1 ++ rest) q target sink =
               (ranges_result (a_res HO a) Finished, a_target HO a, a_ob HO a, st'))) \/
  collision HO.
Proof. intros HO Hl Hb. apply (or_collision HO _ Hl Hb). exact (C02_roundtrip_full_decode_ranges HO). Qed.
Print Assumptions C02_roundtrip_full_decode_ranges_or_collision.

Theorem C02_e2e_create_encode_decode_or_collision : forall (HO : hops), cv_len32 HO -> beq_correct HO ->
  (forall (data : bytes HO) (bs : N), (blen HO data <= 2 ^ 63)%N -> (bs <= 10)%N ->
  forall ob : outboard HO, created_store HO data bs ob ->
  forall q : ranges, wf_ranges q = true ->
  exists enc : bytes HO,
    encode_ranges_validated HO data ob q = (Ok tt, enc) /\
    encode_ranges_validated_fsm HO data ob q = (Ok tt, enc) /\
    forall (D : N -> bool) (st : bytes HO * outboard HO) (rest : bytes HO) (fsm : bool),
    Inv HO data bs D st ->
    Inv HO data bs (fun c => D c || sel q (blen HO data) c)
        (hist_step HO st (mkOp HO q (enc ++ rest) no_faults fsm))) \/
  collision HO.
Proof. intros HO Hl Hb. apply (or_collision HO _ Hl Hb). exact (C02_e2e_create_encode_decode HO). Qed.
Print Assumptions C02_e2e_create_encode_decode_or_collision.

