(* C02 statements: the decode side of the round trip, end to end.  The decoders are set up for
   (root hash of the blob, tree of the blob, q) and read the honest encoding honest HO data bs q of
   Spec/EncSpec.v followed by arbitrary further bytes.  Proofs in Proofs/E2E*.v (composition of the
   Bridge, C15 and C01 layers).  That the encoders produce flat HO (honest HO data bs q) is the
   encode side (not stated here). *)
From BaoV Require Import Model.Fsm Spec.EncSpec Spec.HashAssm Spec.RangeSpec.
From BaoV Require Import Proofs.DecForest Proofs.DecRanges Proofs.BridgeLeaves.
From BaoV Require Import Proofs.E2EGlue Proofs.E2EDecode Proofs.E2ERanges Proofs.E2EMisc.

(* decoding the honest encoding yields exactly the honest items, finishes, and leaves what follows unread *)
Theorem C02_roundtrip_sync : forall HO, hash_ok HO ->
  forall (data : bytes HO) (bs : N) (q : ranges),
  (blen HO data <= 2 ^ 63)%N -> (bs <= 10)%N -> wf_ranges q = true -> q <> [] ->
  forall rest : bytes HO,
  exists st,
    dec_run HO (dec_new HO (root_hash HO data) (mkTree (blen HO data) bs)
                        (flat HO (honest HO data bs q) ++ rest) q)
      = (honest HO data bs q, Finished, st) /\
    d_enc HO st = rest.
Proof. exact e2e_roundtrip_sync. Qed.
Print Assumptions C02_roundtrip_sync.

Theorem C02_roundtrip_fsm : forall HO, hash_ok HO ->
  forall (data : bytes HO) (bs : N) (q : ranges),
  (blen HO data <= 2 ^ 63)%N -> (bs <= 10)%N -> wf_ranges q = true -> q <> [] ->
  forall rest : bytes HO,
  exists st,
    rd_run HO (rd_new HO (root_hash HO data) q (mkTree (blen HO data) bs)
                      (flat HO (honest HO data bs q) ++ rest))
      = (honest HO data bs q, Finished, st) /\
    Fsm.r_enc HO st = rest /\ rd_finish HO st = rest.
Proof. exact e2e_roundtrip_fsm. Qed.
Print Assumptions C02_roundtrip_fsm.

(* decode_ranges on the honest encoding applies all honest items (apply_items, Props/C01.v); with
   saves that succeed the result is Ok and the target is write_leaves target (honest ..) *)
Theorem C02_roundtrip_decode_ranges : forall HO, hash_ok HO ->
  forall (data : bytes HO) (bs : N) (q : ranges),
  (blen HO data <= 2 ^ 63)%N -> (bs <= 10)%N -> wf_ranges q = true -> q <> [] ->
  forall (rest target : bytes HO) (ob : outboard HO),
  ob_root ob = root_hash HO data -> ob_tree ob = mkTree (blen HO data) bs ->
  let a := apply_items HO (honest HO data bs q) target ob in
  (exists st', decode_ranges HO (flat HO (honest HO data bs q) ++ rest) q target ob =
               (ranges_result (a_res HO a) Finished, a_target HO a, a_ob HO a, st')) /\
  (exists st', decode_ranges_fsm HO (flat HO (honest HO data bs q) ++ rest) q target ob =
               (ranges_result (a_res HO a) Finished, a_target HO a, a_ob HO a, st')).
Proof. exact e2e_decode_ranges_roundtrip. Qed.
Print Assumptions C02_roundtrip_decode_ranges.

(* the leaves of the honest encoding, written into any target of the blob's length (write_leaves,
   Props/Bridge.v), deliver exactly the selection: the result agrees with the blob on every selected
   chunk and with the old target on every other chunk; each leaf is the run [s, e) of selected chunks
   of one chunk group, at byte offset s * 1024 *)
Theorem C02_delivers_selection : forall HO (data target : bytes HO) (bs : N) (q : ranges),
  (blen HO data <= 2 ^ 63)%N -> length target = length data ->
  let size := blen HO data in
  let out := write_leaves HO target (honest HO data bs q) in
  (blen HO out = size /\
   forall c, (c < nchunks size)%N ->
     chunk_bytes HO out c (c + 1) =
     if sel q size c then chunk_bytes HO data c (c + 1) else chunk_bytes HO target c (c + 1)) /\
  (forall off d, In (ILeaf off d) (honest HO data bs q) ->
     exists s e, (off = s * 1024 /\ s < e /\ e <= nchunks size /\ e - s <= 2 ^ bs)%N /\
                 d = chunk_bytes HO data s e /\ (forall c, (s <= c < e)%N -> sel q size c = true)).
Proof. exact e2e_delivers_selection. Qed.
Print Assumptions C02_delivers_selection.

(* the empty query: nothing is encoded, the plan is empty (pp_new pushes nothing), both decoders
   finish immediately without consuming anything - for any root, tree and stream *)
Theorem C02_empty_query : forall HO (data stream : bytes HO) (bs : N) (root : hash HO) (t : tree),
  honest HO data bs [] = [] /\
  response_iter t [] = [] /\
  (exists st, dec_run HO (dec_new HO root t stream []) = ([], Finished, st) /\ d_enc HO st = stream) /\
  (exists st, rd_run HO (rd_new HO root [] t stream) = ([], Finished, st) /\ Fsm.r_enc HO st = stream).
Proof. exact e2e_empty_query. Qed.
Print Assumptions C02_empty_query.

(* ======== Final composition (proofs in Proofs/FinalStore.v, Proofs/FinalEnc.v): the full round trip ========
   created_store HO data bs ob (Props/C03.v: C03_created_store_def; every store returned by a creation entry
   point satisfies it: C03_created_by_store).  The stored_ok premise of C02_enc_is_spec_* is discharged by
   C03_created_store_intact: the parents of the encoder's plan are persisted nodes of the Shape
   (C04_enc_nodes_persisted). *)
From BaoV Require Import Model.Sync Proofs.FinalStore Proofs.FinalEnc.

(* encode on a created store, decode with the store's root and tree: the items are the honest ones, the
   decoder finishes and leaves exactly what follows the encoding; the empty query encodes to nothing
   (and decodes nothing: C02_empty_query) *)
Theorem C02_roundtrip_full_sync : forall (HO : hops), hash_ok HO ->
  forall (data : bytes HO) (bs : N), (blen HO data <= 2 ^ 63)%N -> (bs <= 10)%N ->
  forall ob : outboard HO, created_store HO data bs ob ->
  forall q : ranges, wf_ranges q = true ->
  exists enc, encode_ranges_validated HO data ob q = (Ok tt, enc) /\ enc = flat HO (honest HO data bs q) /\
    (q = [] -> enc = []) /\
    (q <> [] -> forall rest : bytes HO, exists st,
       dec_run HO (dec_new HO (ob_root ob) (ob_tree ob) (enc ++ rest) q) = (honest HO data bs q, Finished, st) /\
       d_enc HO st = rest).
Proof. exact c02_roundtrip_full_sync. Qed.
Print Assumptions C02_roundtrip_full_sync.

Theorem C02_roundtrip_full_fsm : forall (HO : hops), hash_ok HO ->
  forall (data : bytes HO) (bs : N), (blen HO data <= 2 ^ 63)%N -> (bs <= 10)%N ->
  forall ob : outboard HO, created_store HO data bs ob ->
  forall q : ranges, wf_ranges q = true ->
  exists enc, encode_ranges_validated_fsm HO data ob q = (Ok tt, enc) /\ enc = flat HO (honest HO data bs q) /\
    (q = [] -> enc = []) /\
    (q <> [] -> forall rest : bytes HO, exists st,
       rd_run HO (rd_new HO (ob_root ob) q (ob_tree ob) (enc ++ rest)) = (honest HO data bs q, Finished, st) /\
       Fsm.r_enc HO st = rest /\ rd_finish HO st = rest).
Proof. exact c02_roundtrip_full_fsm. Qed.
Print Assumptions C02_roundtrip_full_fsm.

(* encode on a created store (sync and fsm give the same bytes), decode_ranges (sync and fsm) into any target
   and any sink store carrying the blob's root and tree: all honest items are applied (apply_items, Props/C01.v) *)
Theorem C02_roundtrip_full_decode_ranges : forall (HO : hops), hash_ok HO ->
  forall (data : bytes HO) (bs : N), (blen HO data <= 2 ^ 63)%N -> (bs <= 10)%N ->
  forall ob : outboard HO, created_store HO data bs ob ->
  forall q : ranges, wf_ranges q = true -> q <> [] ->
  forall (rest target : bytes HO) (sink : outboard HO),
  ob_root sink = root_hash HO data -> ob_tree sink = mkTree (blen HO data) bs ->
  forall enc1 enc2,
  encode_ranges_validated HO data ob q = (Ok tt, enc1) ->
  encode_ranges_validated_fsm HO data ob q = (Ok tt, enc2) ->
  enc1 = enc2 /\
  let a := apply_items HO (honest HO data bs q) target sink in
  (exists st', decode_ranges HO (enc1 ++ rest) q target sink =
               (ranges_result (a_res HO a) Finished, a_target HO a, a_ob HO a, st')) /\
  (exists st', decode_ranges_fsm HO (enc1 ++ rest) q target sink =
               (ranges_result (a_res HO a) Finished, a_target HO a, a_ob HO a, st')).
Proof. exact c02_roundtrip_full_decode_ranges. Qed.
Print Assumptions C02_roundtrip_full_decode_ranges.

(* ---- end to end: create, encode, decode into zeros (Proofs/E2EDownload*.v) ---- *)
From BaoV Require Import Model.IO Spec.RangeSpec Spec.EncSpec Spec.HashAssm
  Proofs.HistOb Proofs.HistEnc Proofs.HistInv Proofs.HistStep Proofs.FinalStore
  Proofs.E2EDownload Proofs.E2EDownloadStep Proofs.E2EDownloadConv.

(* the validating encoders (sync, fsm) on a created store emit the same bytes enc; a fault-free decode step (sync or
   fsm) reading enc followed by any bytes, from any state of the history invariant, adds exactly the selection
   of q to the delivered set *)
Theorem C02_e2e_create_encode_decode : forall (HO : hops), hash_ok HO ->
  forall (data : bytes HO) (bs : N), (blen HO data <= 2 ^ 63)%N -> (bs <= 10)%N ->
  forall ob : outboard HO, created_store HO data bs ob ->
  forall q : ranges, wf_ranges q = true ->
  exists enc : bytes HO,
    encode_ranges_validated HO data ob q = (Ok tt, enc) /\
    encode_ranges_validated_fsm HO data ob q = (Ok tt, enc) /\
    forall (D : N -> bool) (st : bytes HO * outboard HO) (rest : bytes HO) (fsm : bool),
    Inv HO data bs D st ->
    Inv HO data bs (fun c => D c || sel q (blen HO data) c)
        (hist_step HO st (mkOp HO q (enc ++ rest) no_faults fsm)).
Proof. exact e2e_create_encode_decode. Qed.
Print Assumptions C02_e2e_create_encode_decode.

(* the provider holds a created store and encodes ChunkRanges::all() = [0]; a requester that knows only the root
   hash and the size (the all-zero initial state of any kind k) decodes the stream, followed by any bytes, with
   either decoder and ends with the blob and the blob's created store - the provider's store itself when the
   kinds agree *)
Theorem C02_e2e_download_all : forall (HO : hops), hash_ok HO ->
  forall (data : bytes HO) (bs : N), (blen HO data <= 2 ^ 63)%N -> (bs <= 10)%N ->
  forall ob : outboard HO, created_store HO data bs ob ->
  exists enc : bytes HO,
    encode_ranges_validated HO data ob [0%N] = (Ok tt, enc) /\
    encode_ranges_validated_fsm HO data ob [0%N] = (Ok tt, enc) /\
    forall k, hist_kind k -> forall (rest : bytes HO) (fsm : bool),
    fst (hist_step HO (init_target HO data, init_ob HO data bs k) (mkOp HO [0%N] (enc ++ rest) no_faults fsm)) = data /\
    created_store HO data bs
      (snd (hist_step HO (init_target HO data, init_ob HO data bs k) (mkOp HO [0%N] (enc ++ rest) no_faults fsm))) /\
    (k = ob_k ob ->
     snd (hist_step HO (init_target HO data, init_ob HO data bs k) (mkOp HO [0%N] (enc ++ rest) no_faults fsm)) = ob).
Proof. exact e2e_download_all. Qed.
Print Assumptions C02_e2e_download_all.
