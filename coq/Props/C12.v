(* C12 statements; proofs in Proofs/. *)
From BaoV Require Import Model.Tree Spec.NodeSpec.
