(* C12 - stored hash pairs have unique, dense, order-consistent slots.  Statements only; proofs in Proofs/. *)
From BaoV Require Import Model.Iter Spec.NodeSpec Proofs.ShapeBase Proofs.ShapeIter Proofs.ShapeOffsets Proofs.ShapePos Proofs.ShapePre Proofs.ShapePost Proofs.ShapeList.
From Coq Require Import Permutation.

(* the stack-free pre-order node iterator lists exactly the nodes of the recursive Shape *)
Theorem C12_pre_nodes : forall size bs, size <= 2 ^ 63 -> bs <= 10 ->
  pre_order_nodes_iter (mkTree size bs) = sp_pre_nodes size bs.
Proof. exact pre_nodes_spec. Qed.
Print Assumptions C12_pre_nodes.

Theorem C12_post_nodes : forall size bs, size <= 2 ^ 63 -> bs <= 10 ->
  post_order_nodes_iter (mkTree size bs) = sp_post_nodes size bs.
Proof. exact post_nodes_spec. Qed.
Print Assumptions C12_post_nodes.

(* nodes below the block level have no slot in either outboard *)
Theorem C12_below_block : forall size bs nd, level nd < bs ->
  pre_order_offset (mkTree size bs) nd = None /\ post_order_offset (mkTree size bs) nd = None.
Proof. exact below_block. Qed.
Print Assumptions C12_below_block.

(* stored nodes get the slots 0, 1, 2, ... of the pre-order outboard in traversal order *)
Theorem C12_pre_offsets : forall size bs, size <= 2 ^ 63 -> bs <= 10 ->
  map (pre_order_offset (mkTree size bs)) (filter (sp_persisted size bs) (sp_pre_nodes size bs)) =
  map (fun i => Some (N.of_nat i)) (seq 0 (N.to_nat (sp_blocks size bs - 1))).
Proof. exact pre_offsets_spec. Qed.
Print Assumptions C12_pre_offsets.

Theorem C12_pre_none : forall size bs nd, size <= 2 ^ 63 -> bs <= 10 ->
  In nd (sp_pre_nodes size bs) -> sp_persisted size bs nd = false ->
  pre_order_offset (mkTree size bs) nd = None.
Proof. exact pre_none_spec. Qed.
Print Assumptions C12_pre_none.

(* the same for the post-order outboard: the i-th stored node of the post-order listing has slot i *)
Theorem C12_post_offsets : forall size bs, size <= 2 ^ 63 -> bs <= 10 ->
  map (fun nd => option_map po_value (post_order_offset (mkTree size bs) nd))
      (filter (sp_persisted size bs) (sp_post_nodes size bs)) =
  map (fun i => Some (N.of_nat i)) (seq 0 (N.to_nat (sp_blocks size bs - 1))).
Proof. exact post_offsets_spec. Qed.
Print Assumptions C12_post_offsets.

Theorem C12_post_none : forall size bs nd, size <= 2 ^ 63 -> bs <= 10 ->
  In nd (sp_post_nodes size bs) -> sp_persisted size bs nd = false ->
  option_map po_value (post_order_offset (mkTree size bs) nd) = None.
Proof. exact post_none_spec. Qed.
Print Assumptions C12_post_none.

(* listed nodes are pairwise distinct, both listings have the same nodes, blocks - 1 of them are stored *)
Theorem C12_nodes_distinct : forall size bs, size <= 2 ^ 63 -> NoDup (sp_pre_nodes size bs).
Proof. exact pre_nodes_nodup. Qed.
Print Assumptions C12_nodes_distinct.

Theorem C12_nodes_perm : forall size bs, size <= 2 ^ 63 ->
  Permutation (sp_pre_nodes size bs) (sp_post_nodes size bs).
Proof. exact pre_post_perm. Qed.
Print Assumptions C12_nodes_perm.

Theorem C12_persisted_count : forall size bs, size <= 2 ^ 63 -> bs <= 10 ->
  length (filter (sp_persisted size bs) (sp_pre_nodes size bs)) = N.to_nat (sp_blocks size bs - 1).
Proof. exact persisted_count. Qed.
Print Assumptions C12_persisted_count.

Theorem C12_blocks : forall size bs, blocks (mkTree size bs) = sp_blocks size bs.
Proof. exact blocks_spec. Qed.
Print Assumptions C12_blocks.

(* ======== Gap audit (proofs in Proofs/GapCopy.v) ========
   (a) the offsets clauses stated about the model's own iterators and its own is_persisted predicate (no Shape);
   (b) the bound size <= 2^63 of the post-order theorems is sharp (witness);
   (c) the last sentence of the property, which had no theorem: sync::copy, fsm::copy and flip lose and invent
       nothing.  Proofs/GapCopy.v cannot use Proofs/HistOb.v (it imports this file); the composition with C03
       (copy / flip of a created store is the created store of the other order) is in Proofs/GapCopyCreated.v. *)
From BaoV Require Import Model.Sync Model.Fsm Proofs.DecWitness Proofs.GapCopy.

(* ---- (a) slots in traversal order, about pre_order_nodes_iter / post_order_nodes_iter directly ---- *)
Theorem C12_gap_iter_pre_offsets : forall size bs, size <= 2 ^ 63 -> bs <= 10 ->
  map (pre_order_offset (mkTree size bs))
      (filter (is_persisted (mkTree size bs)) (pre_order_nodes_iter (mkTree size bs))) =
  map (fun i => Some (N.of_nat i)) (seq 0 (N.to_nat (outboard_hash_pairs (mkTree size bs)))).
Proof. exact gap_iter_pre_offsets. Qed.
Print Assumptions C12_gap_iter_pre_offsets.

Theorem C12_gap_iter_post_offsets : forall size bs, size <= 2 ^ 63 -> bs <= 10 ->
  map (fun nd => option_map po_value (post_order_offset (mkTree size bs) nd))
      (filter (is_persisted (mkTree size bs)) (post_order_nodes_iter (mkTree size bs))) =
  map (fun i => Some (N.of_nat i)) (seq 0 (N.to_nat (outboard_hash_pairs (mkTree size bs)))).
Proof. exact gap_iter_post_offsets. Qed.
Print Assumptions C12_gap_iter_post_offsets.

(* the other nodes of the traversal (the half-filled last leaf) have no slot in either order *)
Theorem C12_gap_iter_none : forall size bs nd, size <= 2 ^ 63 -> bs <= 10 ->
  In nd (pre_order_nodes_iter (mkTree size bs)) -> is_persisted (mkTree size bs) nd = false ->
  In nd (post_order_nodes_iter (mkTree size bs)) /\
  pre_order_offset (mkTree size bs) nd = None /\ post_order_offset (mkTree size bs) nd = None.
Proof. exact gap_iter_none. Qed.
Print Assumptions C12_gap_iter_none.

(* one-to-one and onto, both orders: same stored nodes in both traversals, every stored node has a slot below
   the number of pairs in both orders, equal slots (in either order) mean equal nodes, every slot is taken *)
Theorem C12_gap_slots_bijective : forall size bs, size <= 2 ^ 63 -> bs <= 10 ->
  let t := mkTree size bs in
  let stored nd := In nd (pre_order_nodes_iter t) /\ is_persisted t nd = true in
  (forall nd, stored nd <-> In nd (post_order_nodes_iter t) /\ is_persisted t nd = true) /\
  (forall nd, stored nd -> exists o o', o < outboard_hash_pairs t /\ o' < outboard_hash_pairs t /\
     pre_order_offset t nd = Some o /\ option_map po_value (post_order_offset t nd) = Some o') /\
  (forall nd nd', stored nd -> stored nd' ->
     pre_order_offset t nd = pre_order_offset t nd' \/
     option_map po_value (post_order_offset t nd) = option_map po_value (post_order_offset t nd') -> nd = nd') /\
  (forall o, o < outboard_hash_pairs t ->
     (exists nd, stored nd /\ pre_order_offset t nd = Some o) /\
     (exists nd, stored nd /\ option_map po_value (post_order_offset t nd) = Some o)).
Proof. exact gap_slots_bijective. Qed.
Print Assumptions C12_gap_slots_bijective.

(* ---- (b) REFUTED beyond size <= 2^63 ("for every blob size"): witness size = 2^63 + 1, block size 0, the root
   2^53 - 1 of the tree (2^53 stored pairs).  The root covers chunks [0, 2^54); ChunkNum::to_bytes is
   `self.0 << 10`, so the byte end 2^64 wraps to 0, `node.byte_range().end <= self.size` holds and
   BaoTree::post_order_offset answers Stable (2^54 - 2), a slot far outside the outboard, instead of
   Unstable (2^53 - 1).  Real behaviour of the Rust for blobs above 8 EiB; the bound of the theorems is sharp. *)
Theorem C12_gap_post_offset_beyond_refuted :
  exists size bs nd v,
    2 ^ 63 < size /\ size < 2 ^ 64 /\ bs = 0 /\ nd = fst (shifted (mkTree size bs)) /\
    is_persisted (mkTree size bs) nd = true /\
    post_order_offset (mkTree size bs) nd = Some (Stable v) /\
    outboard_hash_pairs (mkTree size bs) <= v.
Proof. exact gap_post_offset_beyond_refuted. Qed.
Print Assumptions C12_gap_post_offset_beyond_refuted.

(* ---- (c) copy and flip ---- *)

(* copy_gen (Proofs/GapCopy.v, specification side) is the loop of sync::copy / fsm::copy over an abstract loader
   `ld : node -> io::Result<Option<pair>>`: for each node in order, a pair the loader returns is saved into the
   target, None is skipped, a failure of the loader or of the save ends the loop with that failure.
   The model's two loops are its instances: *)
Theorem C12_gap_copy_is_gen : forall (HO : hops) (from to : outboard HO),
  copy HO from to = copy_gen HO (load_sync HO from) (pre_order_nodes_iter (ob_tree from)) to /\
  copy_fsm HO from to = copy_gen HO (load_fsm HO from) (pre_order_nodes_iter (ob_tree from)) to.
Proof. exact gap_copy_is_gen. Qed.
Print Assumptions C12_gap_copy_is_gen.

(* Any node-keyed loader (e.g. a map outboard with missing entries), any list of nodes, a target of one of the
   four slotted kinds over the tree (an in-memory target must be at least as long as the outboard; a file may have
   any length, even 0): if the loader fails nowhere and answers pairs only at stored nodes of the tree, the copy
   succeeds, keeps kind / root / tree, only grows the target up to the outboard size, every pair the loader has
   is what both loaders of the result return (nothing lost), and a stored node the loader does not have (or that
   is not in the list) whose slot was inside the target keeps the pair the target had (nothing invented). *)
Theorem C12_gap_copy_gen : forall (HO : hops) (size bs : N) (ld : N -> res io_kind (option (hash HO * hash HO)))
  (nodes : list N) (to : outboard HO),
  size <= 2 ^ 63 -> bs <= 10 ->
  (forall nd l r, ld nd = Ok (Some (l, r)) -> length l = 32%nat /\ length r = 32%nat) ->
  (ob_k to = PreIO \/ ob_k to = PostIO \/ ob_k to = PreMem \/ ob_k to = PostMem) ->
  ob_tree to = mkTree size bs ->
  ((ob_k to = PreMem \/ ob_k to = PostMem) -> (sp_blocks size bs - 1) * 64 <= blen HO (ob_data to)) ->
  (forall nd, In nd nodes -> exists x, ld nd = Ok x) ->
  (forall nd p, In nd nodes -> ld nd = Ok (Some p) ->
     In nd (sp_pre_nodes size bs) /\ sp_persisted size bs nd = true) ->
  exists to', copy_gen HO ld nodes to = Ok to' /\
    ob_k to' = ob_k to /\ ob_root to' = ob_root to /\ ob_tree to' = ob_tree to /\
    blen HO (ob_data to) <= blen HO (ob_data to') /\
    blen HO (ob_data to') <= N.max (blen HO (ob_data to)) ((sp_blocks size bs - 1) * 64) /\
    (forall nd p, In nd nodes -> ld nd = Ok (Some p) ->
       load_sync HO to' nd = Ok (Some p) /\ load_fsm HO to' nd = Ok (Some p)) /\
    (forall nd o, In nd (sp_pre_nodes size bs) -> sp_persisted size bs nd = true ->
       ob_offset HO to nd = Some o -> o * 64 + 64 <= blen HO (ob_data to) ->
       (~ In nd nodes \/ ld nd = Ok None) ->
       load_sync HO to' nd = load_sync HO to nd /\ load_fsm HO to' nd = load_fsm HO to nd).
Proof. exact gap_copy_gen. Qed.
Print Assumptions C12_gap_copy_gen.

(* instance: the post-order store of a five-chunk tree with node 1 removed, copied into a pre-order buffer *)
Theorem C12_gap_copy_gen_nonvacuous :
  let src := mkOb PostMem [] (mkTree 5120 0) (wdat 256) : outboard term_hops in
  let ld := fun nd => if nd =? 1 then Ok None else load_sync term_hops src nd in
  let to := mkOb PreMem [] (mkTree 5120 0) (map wbyte (seq 1000 256)) : outboard term_hops in
  (forall nd l r, ld nd = Ok (Some (l, r)) -> length l = 32%nat /\ length r = 32%nat) /\
  (forall nd, In nd (sp_pre_nodes 5120 0) -> exists x, ld nd = Ok x) /\
  (forall nd p, In nd (sp_pre_nodes 5120 0) -> ld nd = Ok (Some p) ->
     In nd (sp_pre_nodes 5120 0) /\ sp_persisted 5120 0 nd = true) /\
  ld 1 = Ok None /\ In 1 (sp_pre_nodes 5120 0) /\ sp_persisted 5120 0 1 = true /\
  copy_gen term_hops ld (sp_pre_nodes 5120 0) to =
    Ok (mkOb PreMem [] (mkTree 5120 0)
          (map wbyte (seq 192 64 ++ seq 1064 64 ++ seq 0 64 ++ seq 64 64))).
Proof. exact gap_copy_gen_nonvacuous. Qed.
Print Assumptions C12_gap_copy_gen_nonvacuous.

(* Sources of the crate that "answer None at some nodes": an outboard of ANY kind (EmptyOutboard included) and any
   content over the tree answers None exactly at the nodes of the traversal that store nothing, with both loaders;
   so at stored nodes a crate source answers a pair or fails. *)
Theorem C12_gap_source_none_iff : forall (HO : hops) (size bs : N) (from : outboard HO) (nd : N),
  size <= 2 ^ 63 -> bs <= 10 -> ob_tree from = mkTree size bs -> In nd (sp_pre_nodes size bs) ->
  (load_sync HO from nd = Ok None <-> sp_persisted size bs nd = false) /\
  (load_fsm HO from nd = Ok None <-> sp_persisted size bs nd = false).
Proof. exact gap_source_none_iff. Qed.
Print Assumptions C12_gap_source_none_iff.

(* sync::copy.  Source: any kind, any content, over the tree, holding a pair for every stored node.  Target: any of
   the four slotted kinds over the tree, either order; in-memory targets at least as long as the outboard, files of
   any length.  The copy succeeds; the target ends with exactly max(old length, outboard size) bytes; at EVERY node
   of the traversal both loaders of the result return what the source's loader returns. *)
Theorem C12_gap_copy_sync : forall (HO : hops) (size bs : N) (from to : outboard HO),
  size <= 2 ^ 63 -> bs <= 10 ->
  ob_tree from = mkTree size bs ->
  (ob_k to = PreIO \/ ob_k to = PostIO \/ ob_k to = PreMem \/ ob_k to = PostMem) ->
  ob_tree to = mkTree size bs ->
  ((ob_k to = PreMem \/ ob_k to = PostMem) -> (sp_blocks size bs - 1) * 64 <= blen HO (ob_data to)) ->
  (forall nd, In nd (sp_pre_nodes size bs) -> sp_persisted size bs nd = true ->
     exists p, load_sync HO from nd = Ok (Some p)) ->
  exists to', copy HO from to = Ok to' /\
    ob_k to' = ob_k to /\ ob_root to' = ob_root to /\ ob_tree to' = ob_tree to /\
    blen HO (ob_data to') = N.max (blen HO (ob_data to)) ((sp_blocks size bs - 1) * 64) /\
    forall nd, In nd (sp_pre_nodes size bs) ->
      load_sync HO to' nd = load_sync HO from nd /\ load_fsm HO to' nd = load_sync HO from nd.
Proof. exact gap_copy_sync. Qed.
Print Assumptions C12_gap_copy_sync.

(* fsm::copy: the same with the fsm loader of the source *)
Theorem C12_gap_copy_fsm : forall (HO : hops) (size bs : N) (from to : outboard HO),
  size <= 2 ^ 63 -> bs <= 10 ->
  ob_tree from = mkTree size bs ->
  (ob_k to = PreIO \/ ob_k to = PostIO \/ ob_k to = PreMem \/ ob_k to = PostMem) ->
  ob_tree to = mkTree size bs ->
  ((ob_k to = PreMem \/ ob_k to = PostMem) -> (sp_blocks size bs - 1) * 64 <= blen HO (ob_data to)) ->
  (forall nd, In nd (sp_pre_nodes size bs) -> sp_persisted size bs nd = true ->
     exists p, load_fsm HO from nd = Ok (Some p)) ->
  exists to', copy_fsm HO from to = Ok to' /\
    ob_k to' = ob_k to /\ ob_root to' = ob_root to /\ ob_tree to' = ob_tree to /\
    blen HO (ob_data to') = N.max (blen HO (ob_data to)) ((sp_blocks size bs - 1) * 64) /\
    forall nd, In nd (sp_pre_nodes size bs) ->
      load_sync HO to' nd = load_fsm HO from nd /\ load_fsm HO to' nd = load_fsm HO from nd.
Proof. exact gap_copy_fsm. Qed.
Print Assumptions C12_gap_copy_fsm.

(* instance of both: five chunks, four stored pairs of distinct bytes, post-order memory -> empty pre-order file;
   the result is computed *)
Theorem C12_gap_copy_nonvacuous :
  let from := mkOb PostMem [] (mkTree 5120 0) (wdat 256) : outboard term_hops in
  let to := mkOb PreIO [] (mkTree 5120 0) [] : outboard term_hops in
  5120 <= 2 ^ 63 /\ 0 <= 10 /\ sp_blocks 5120 0 - 1 = 4 /\
  ob_tree from = mkTree 5120 0 /\
  (ob_k to = PreIO \/ ob_k to = PostIO \/ ob_k to = PreMem \/ ob_k to = PostMem) /\
  ob_tree to = mkTree 5120 0 /\
  ((ob_k to = PreMem \/ ob_k to = PostMem) -> (sp_blocks 5120 0 - 1) * 64 <= blen term_hops (ob_data to)) /\
  (forall nd, In nd (sp_pre_nodes 5120 0) -> sp_persisted 5120 0 nd = true ->
     exists p, load_sync term_hops from nd = Ok (Some p)) /\
  (forall nd, In nd (sp_pre_nodes 5120 0) -> sp_persisted 5120 0 nd = true ->
     exists p, load_fsm term_hops from nd = Ok (Some p)) /\
  copy term_hops from to =
    Ok (mkOb PreIO [] (mkTree 5120 0)
          (map wbyte (seq 192 64 ++ seq 128 64 ++ seq 0 64 ++ seq 64 64))) /\
  copy_fsm term_hops from to = copy term_hops from to.
Proof. exact gap_copy_nonvacuous. Qed.
Print Assumptions C12_gap_copy_nonvacuous.

(* The outcome without the hypothesis on the source: a copy into such a target succeeds exactly when the source's
   loader answers at every stored node; otherwise it reports a failure of the SOURCE's loader at a stored node
   (a save into such a target never fails). *)
Theorem C12_gap_copy_sync_outcome : forall (HO : hops) (size bs : N) (from to : outboard HO),
  size <= 2 ^ 63 -> bs <= 10 ->
  ob_tree from = mkTree size bs ->
  (ob_k to = PreIO \/ ob_k to = PostIO \/ ob_k to = PreMem \/ ob_k to = PostMem) ->
  ob_tree to = mkTree size bs ->
  ((ob_k to = PreMem \/ ob_k to = PostMem) -> (sp_blocks size bs - 1) * 64 <= blen HO (ob_data to)) ->
  match copy HO from to with
  | Ok _ => forall nd, In nd (sp_pre_nodes size bs) -> sp_persisted size bs nd = true ->
              exists p, load_sync HO from nd = Ok (Some p)
  | Err k => exists nd, In nd (sp_pre_nodes size bs) /\ sp_persisted size bs nd = true /\
              load_sync HO from nd = Err k
  | Panic => exists nd, In nd (sp_pre_nodes size bs) /\ sp_persisted size bs nd = true /\
              load_sync HO from nd = Panic
  end.
Proof. exact gap_copy_sync_outcome. Qed.
Print Assumptions C12_gap_copy_sync_outcome.

(* fsm::copy never reports an io error: fsm loaders of io-backed outboards answer a zero pair on a short read *)
Theorem C12_gap_copy_fsm_outcome : forall (HO : hops) (size bs : N) (from to : outboard HO),
  size <= 2 ^ 63 -> bs <= 10 ->
  ob_tree from = mkTree size bs ->
  (ob_k to = PreIO \/ ob_k to = PostIO \/ ob_k to = PreMem \/ ob_k to = PostMem) ->
  ob_tree to = mkTree size bs ->
  ((ob_k to = PreMem \/ ob_k to = PostMem) -> (sp_blocks size bs - 1) * 64 <= blen HO (ob_data to)) ->
  match copy_fsm HO from to with
  | Ok _ => forall nd, In nd (sp_pre_nodes size bs) -> sp_persisted size bs nd = true ->
              exists p, load_fsm HO from nd = Ok (Some p)
  | Err k => False
  | Panic => exists nd, In nd (sp_pre_nodes size bs) /\ sp_persisted size bs nd = true /\
              load_fsm HO from nd = Panic
  end.
Proof. exact gap_copy_fsm_outcome. Qed.
Print Assumptions C12_gap_copy_fsm_outcome.

(* WITNESS, suspicious in the crate (sync and fsm disagree, and fsm::copy invents): the source file is empty
   although its tree (two chunk groups) has one stored pair.  sync::copy fails with UnexpectedEof and leaves the
   target alone; fsm::copy reports success and overwrites the non-zero pair the target held with 64 zero bytes
   (src/io/fsm.rs:157-168 and 290-301: `if content.len() != 64 { zero hashes }`). *)
Theorem C12_gap_copy_fsm_truncated_invents :
  exists (from to : outboard term_hops) (nd : N) (p : hash term_hops * hash term_hops),
    ob_k from = PreIO /\ ob_tree from = mkTree 2048 0 /\ ob_data from = [] /\
    ob_k to = PreMem /\ ob_tree to = mkTree 2048 0 /\ blen term_hops (ob_data to) = (sp_blocks 2048 0 - 1) * 64 /\
    In nd (sp_pre_nodes 2048 0) /\ sp_persisted 2048 0 nd = true /\
    load_sync term_hops to nd = Ok (Some p) /\ p <> zero_pair term_hops /\
    load_sync term_hops from nd = Err KUnexpectedEof /\
    load_fsm term_hops from nd = Ok (Some (zero_pair term_hops)) /\
    copy term_hops from to = Err KUnexpectedEof /\
    exists to', copy_fsm term_hops from to = Ok to' /\
      load_sync term_hops to' nd = Ok (Some (zero_pair term_hops)) /\
      ob_data to' = zeros term_hops 64.
Proof. exact gap_copy_fsm_truncated_invents. Qed.
Print Assumptions C12_gap_copy_fsm_truncated_invents.

(* two stores of the same slotted kind and the outboard's length that load the same pairs at the stored nodes
   have the same bytes *)
Theorem C12_gap_sized_ext : forall (HO : hops) (size bs : N) (ob1 ob2 : outboard HO),
  size <= 2 ^ 63 -> bs <= 10 ->
  (ob_k ob1 = PreIO \/ ob_k ob1 = PostIO \/ ob_k ob1 = PreMem \/ ob_k ob1 = PostMem) ->
  ob_k ob2 = ob_k ob1 -> ob_tree ob1 = mkTree size bs -> ob_tree ob2 = mkTree size bs ->
  blen HO (ob_data ob1) = (sp_blocks size bs - 1) * 64 -> blen HO (ob_data ob2) = (sp_blocks size bs - 1) * 64 ->
  (forall nd, In nd (sp_pre_nodes size bs) -> sp_persisted size bs nd = true ->
     load_sync HO ob1 nd = load_sync HO ob2 nd) ->
  ob_data ob1 = ob_data ob2.
Proof. exact gap_sized_ext. Qed.
Print Assumptions C12_gap_sized_ext.

(* "copying it": copying a store of the outboard's length into a store of the same order that is not longer
   (an empty file, a zeroed buffer, a stale copy) gives the source's bytes exactly, sync and fsm *)
Theorem C12_gap_copy_same_order : forall (HO : hops) (size bs : N) (from to : outboard HO),
  size <= 2 ^ 63 -> bs <= 10 ->
  (ob_k from = PreIO \/ ob_k from = PostIO \/ ob_k from = PreMem \/ ob_k from = PostMem) ->
  ob_tree from = mkTree size bs -> blen HO (ob_data from) = (sp_blocks size bs - 1) * 64 ->
  (ob_k to = PreIO \/ ob_k to = PostIO \/ ob_k to = PreMem \/ ob_k to = PostMem) ->
  ob_tree to = mkTree size bs ->
  ((ob_k to = PreIO \/ ob_k to = PreMem) <-> (ob_k from = PreIO \/ ob_k from = PreMem)) ->
  blen HO (ob_data to) <= (sp_blocks size bs - 1) * 64 ->
  ((ob_k to = PreMem \/ ob_k to = PostMem) -> blen HO (ob_data to) = (sp_blocks size bs - 1) * 64) ->
  copy HO from to = Ok (mkOb (ob_k to) (ob_root to) (mkTree size bs) (ob_data from)) /\
  copy_fsm HO from to = Ok (mkOb (ob_k to) (ob_root to) (mkTree size bs) (ob_data from)).
Proof. exact gap_copy_same_order_full. Qed.
Print Assumptions C12_gap_copy_same_order.

(* flip: an in-memory outboard of the outboard's length flips to the other order with the same root and tree and
   the same pair at every node of the traversal (both loaders), and flipping back gives the original outboard *)
Theorem C12_gap_flip_flip : forall (HO : hops) (size bs : N) (ob : outboard HO),
  size <= 2 ^ 63 -> bs <= 10 ->
  (ob_k ob = PreMem \/ ob_k ob = PostMem) -> ob_tree ob = mkTree size bs ->
  blen HO (ob_data ob) = (sp_blocks size bs - 1) * 64 ->
  exists ob1, flip HO ob = Ok ob1 /\
    ob_k ob1 = (match ob_k ob with PostMem => PreMem | _ => PostMem end) /\
    ob_root ob1 = ob_root ob /\ ob_tree ob1 = ob_tree ob /\
    blen HO (ob_data ob1) = (sp_blocks size bs - 1) * 64 /\
    (forall nd, In nd (sp_pre_nodes size bs) ->
       load_sync HO ob1 nd = load_sync HO ob nd /\ load_fsm HO ob1 nd = load_fsm HO ob nd) /\
    flip HO ob1 = Ok ob.
Proof. exact gap_flip. Qed.
Print Assumptions C12_gap_flip_flip.

Theorem C12_gap_flip_nonvacuous :
  let ob := mkOb PostMem [] (mkTree 5120 0) (wdat 256) : outboard term_hops in
  (ob_k ob = PreMem \/ ob_k ob = PostMem) /\ ob_tree ob = mkTree 5120 0 /\
  blen term_hops (ob_data ob) = (sp_blocks 5120 0 - 1) * 64 /\
  flip term_hops ob = Ok (mkOb PreMem [] (mkTree 5120 0)
                            (map wbyte (seq 192 64 ++ seq 128 64 ++ seq 0 64 ++ seq 64 64))) /\
  flip term_hops (mkOb PreMem [] (mkTree 5120 0)
                    (map wbyte (seq 192 64 ++ seq 128 64 ++ seq 0 64 ++ seq 64 64))) = Ok ob.
Proof. exact gap_flip_nonvacuous. Qed.
Print Assumptions C12_gap_flip_nonvacuous.

(* an in-memory outboard shorter than its tree needs cannot be flipped: the unwrap in flip panics *)
Theorem C12_gap_flip_short : forall (HO : hops) (size bs : N) (ob : outboard HO),
  size <= 2 ^ 63 -> bs <= 10 ->
  (ob_k ob = PreMem \/ ob_k ob = PostMem) -> ob_tree ob = mkTree size bs ->
  blen HO (ob_data ob) < (sp_blocks size bs - 1) * 64 ->
  flip HO ob = Panic.
Proof. exact gap_flip_short. Qed.
Print Assumptions C12_gap_flip_short.
