(* C12 - stored hash pairs have unique, dense, order-consistent slots.  Statements only; proofs in Proofs/. *)
From BaoV Require Import Model.Iter Spec.NodeSpec Proofs.ShapeBase Proofs.ShapeIter Proofs.ShapeOffsets Proofs.ShapePos Proofs.ShapePre Proofs.ShapePost Proofs.ShapeList.
From Coq Require Import Permutation.

(* the stack-free pre-order node iterator lists exactly the nodes of the recursive Shape *)
Theorem C12_pre_nodes : forall size bs, size <= 2 ^ 63 -> bs <= 10 ->
  pre_order_nodes_iter (mkTree size bs) = sp_pre_nodes size bs.
Proof. exact pre_nodes_spec. Qed.
Print Assumptions C12_pre_nodes.

Theorem C12_post_nodes : forall size bs, size <= 2 ^ 63 -> bs <= 10 ->
  post_order_nodes_iter (mkTree size bs) = sp_post_nodes size bs.
Proof. exact post_nodes_spec. Qed.
Print Assumptions C12_post_nodes.

(* nodes below the block level have no slot in either outboard *)
Theorem C12_below_block : forall size bs nd, level nd < bs ->
  pre_order_offset (mkTree size bs) nd = None /\ post_order_offset (mkTree size bs) nd = None.
Proof. exact below_block. Qed.
Print Assumptions C12_below_block.

(* stored nodes get the slots 0, 1, 2, ... of the pre-order outboard in traversal order *)
Theorem C12_pre_offsets : forall size bs, size <= 2 ^ 63 -> bs <= 10 ->
  map (pre_order_offset (mkTree size bs)) (filter (sp_persisted size bs) (sp_pre_nodes size bs)) =
  map (fun i => Some (N.of_nat i)) (seq 0 (N.to_nat (sp_blocks size bs - 1))).
Proof. exact pre_offsets_spec. Qed.
Print Assumptions C12_pre_offsets.

Theorem C12_pre_none : forall size bs nd, size <= 2 ^ 63 -> bs <= 10 ->
  In nd (sp_pre_nodes size bs) -> sp_persisted size bs nd = false ->
  pre_order_offset (mkTree size bs) nd = None.
Proof. exact pre_none_spec. Qed.
Print Assumptions C12_pre_none.

(* the same for the post-order outboard: the i-th stored node of the post-order listing has slot i *)
Theorem C12_post_offsets : forall size bs, size <= 2 ^ 63 -> bs <= 10 ->
  map (fun nd => option_map po_value (post_order_offset (mkTree size bs) nd))
      (filter (sp_persisted size bs) (sp_post_nodes size bs)) =
  map (fun i => Some (N.of_nat i)) (seq 0 (N.to_nat (sp_blocks size bs - 1))).
Proof. exact post_offsets_spec. Qed.
Print Assumptions C12_post_offsets.

Theorem C12_post_none : forall size bs nd, size <= 2 ^ 63 -> bs <= 10 ->
  In nd (sp_post_nodes size bs) -> sp_persisted size bs nd = false ->
  option_map po_value (post_order_offset (mkTree size bs) nd) = None.
Proof. exact post_none_spec. Qed.
Print Assumptions C12_post_none.

(* listed nodes are pairwise distinct, both listings have the same nodes, blocks - 1 of them are stored *)
Theorem C12_nodes_distinct : forall size bs, size <= 2 ^ 63 -> NoDup (sp_pre_nodes size bs).
Proof. exact pre_nodes_nodup. Qed.
Print Assumptions C12_nodes_distinct.

Theorem C12_nodes_perm : forall size bs, size <= 2 ^ 63 ->
  Permutation (sp_pre_nodes size bs) (sp_post_nodes size bs).
Proof. exact pre_post_perm. Qed.
Print Assumptions C12_nodes_perm.

Theorem C12_persisted_count : forall size bs, size <= 2 ^ 63 -> bs <= 10 ->
  length (filter (sp_persisted size bs) (sp_pre_nodes size bs)) = N.to_nat (sp_blocks size bs - 1).
Proof. exact persisted_count. Qed.
Print Assumptions C12_persisted_count.

Theorem C12_blocks : forall size bs, blocks (mkTree size bs) = sp_blocks size bs.
Proof. exact blocks_spec. Qed.
Print Assumptions C12_blocks.
