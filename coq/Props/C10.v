(* C10 - io failures surface at every operation index.  Statements only; proofs in Proofs/. *)
From BaoV Require Import Model.IOCalls Proofs.IOReadExact Proofs.IOFaults Proofs.IOSinkFaults.

(* first-failure semantics: a fault beyond the calls made on that object changes nothing *)
Theorem C10_not_reached : forall sites fobj k kind ok,
  N.of_nat (length (filter (fun s => obj_eqb (s_obj s) fobj) sites)) <= k ->
  with_fault sites fobj k kind ok [] = (ok, sites).
Proof. exact with_fault_not_reached. Qed.
Print Assumptions C10_not_reached.

(* otherwise the error of the (k+1)-th call on the object is the result; the log is the fault-free call list
   up to and including that call: k calls on the object before it, none after it *)
Theorem C10_surfaces : forall sites fobj k kind ok,
  k < N.of_nat (length (filter (fun s => obj_eqb (s_obj s) fobj) sites)) ->
  exists pre s post,
    sites = pre ++ s :: post /\ obj_eqb (s_obj s) fobj = true /\
    N.of_nat (length (filter (fun s => obj_eqb (s_obj s) fobj) pre)) = k /\
    with_fault sites fobj k kind ok [] = (s_err s kind, pre ++ [s]).
Proof. exact with_fault_surfaces. Qed.
Print Assumptions C10_surfaces.

Theorem C10_surfaces_log : forall sites fobj k kind ok,
  k < N.of_nat (length (filter (fun s => obj_eqb (s_obj s) fobj) sites)) ->
  exists pre s post,
    with_fault sites fobj k kind ok [] = (s_err s kind, pre ++ [s]) /\
    sites = (pre ++ [s]) ++ post /\ obj_eqb (s_obj s) fobj = true /\
    N.of_nat (length (filter (fun s => obj_eqb (s_obj s) fobj) (pre ++ [s]))) = k + 1.
Proof. exact with_fault_log. Qed.
Print Assumptions C10_surfaces_log.

(* a failing call never reads as success or as a hash mismatch *)
Theorem C10_never_success : forall (HO : hops),
  (forall t ws s, In s (create_sites t ws) ->
     forall k, fst (s_err s k) <> 0 /\ fst (s_err s k) <> 1 /\ fst (s_err s k) <> 2) /\
  (forall t s, In s (create_po_sites t) ->
     forall k, fst (s_err s k) <> 0 /\ fst (s_err s k) <> 1 /\ fst (s_err s k) <> 2) /\
  (forall fsm_ validated t data q s, In s (enc_sites HO fsm_ validated t data q) ->
     forall k, fst (s_err s k) <> 0 /\ fst (s_err s k) <> 1 /\ fst (s_err s k) <> 2) /\
  (forall from s, In s (copy_sites HO from) ->
     forall k, fst (s_err s k) <> 0 /\ fst (s_err s k) <> 1 /\ fst (s_err s k) <> 2) /\
  (forall t q s, In s (valid_ranges_sites t q) ->
     forall k, fst (s_err s k) <> 0 /\ fst (s_err s k) <> 1 /\ fst (s_err s k) <> 2) /\
  (forall t q s, In s (dec_sites t q) ->
     forall k, fst (s_err s k) <> 0 /\ fst (s_err s k) <> 3 /\ fst (s_err s k) <> 4).
Proof. exact never_success. Qed.
Print Assumptions C10_never_success.

(* creation, copy and the validator report every failure as a plain io error *)
Theorem C10_plain_io : forall (HO : hops),
  (forall t ws s, In s (create_sites t ws) -> forall k, s_err s k = (6, kcode k)) /\
  (forall t s, In s (create_po_sites t) -> forall k, s_err s k = (6, kcode k)) /\
  (forall from s, In s (copy_sites HO from) -> forall k, s_err s k = (6, kcode k)) /\
  (forall t q s, In s (valid_ranges_sites t q) -> forall k, s_err s k = (6, kcode k)).
Proof. exact plain_io_sites. Qed.
Print Assumptions C10_plain_io.

(* decoder: UnexpectedEof on a stream read is not-found (naming the item), everything else is Io *)
Theorem C10_dec_classification : forall t q s, In s (dec_sites t q) ->
  (s_obj s = OStreamIn -> fst (s_err s KUnexpectedEof) = 1 \/ fst (s_err s KUnexpectedEof) = 2) /\
  (forall kind, s_obj s <> OStreamIn \/ kind <> KUnexpectedEof -> s_err s kind = (5, kcode kind)).
Proof. exact dec_sites_class. Qed.
Print Assumptions C10_dec_classification.

Theorem C10_dec_not_found_names_item : forall t q s, In s (dec_sites t q) -> s_obj s = OStreamIn ->
  exists c, In c (response_iter t (truncate_ranges q (tsize t))) /\ s_a s = chunk_size c /\
    s_err s KUnexpectedEof = match c with CParent node _ _ _ _ => (1, node) | CLeaf start _ _ _ => (2, start) end.
Proof. exact dec_sites_names. Qed.
Print Assumptions C10_dec_not_found_names_item.

(* encoders: fsm maps ConnectionReset on a stream write to ParentWrite / LeafWrite; sync never does *)
Theorem C10_enc_classification_fsm : forall (HO : hops) validated t data q s, In s (enc_sites HO true validated t data q) ->
  (s_obj s = OStreamOut -> fst (s_err s KConnectionReset) = 3 \/ fst (s_err s KConnectionReset) = 4) /\
  (forall kind, s_obj s <> OStreamOut \/ kind <> KConnectionReset -> s_err s kind = (6, kcode kind)).
Proof. exact enc_sites_class_fsm. Qed.
Print Assumptions C10_enc_classification_fsm.

Theorem C10_enc_write_failed_names_item : forall (HO : hops) validated t data q s,
  In s (enc_sites HO true validated t data q) -> s_obj s = OStreamOut ->
  exists c, In c (pre_order_chunks_iter t (if validated then truncate_ranges q (tsize t) else q) 0) /\
    s_err s KConnectionReset = match c with CParent node _ _ _ _ => (3, node) | CLeaf start _ _ _ => (4, start) end.
Proof. exact enc_sites_names. Qed.
Print Assumptions C10_enc_write_failed_names_item.

Theorem C10_enc_classification_sync : forall (HO : hops) validated t data q s, In s (enc_sites HO false validated t data q) ->
  forall kind, s_err s kind = (6, kcode kind).
Proof. exact enc_sites_class_sync. Qed.
Print Assumptions C10_enc_classification_sync.

(* decode_ranges with the sink faults switched off is decode_ranges *)
Theorem C10_decode_no_fault : forall (HO : hops) enc q target ob,
  decode_ranges_f HO no_faults enc q target ob = decode_ranges HO enc q target ob.
Proof. exact decode_no_fault. Qed.
Print Assumptions C10_decode_no_fault.
Theorem C10_decode_no_fault_fsm : forall (HO : hops) enc q target ob,
  decode_ranges_fsm_f HO no_faults enc q target ob = decode_ranges_fsm HO enc q target ob.
Proof. exact decode_fsm_no_fault. Qed.
Print Assumptions C10_decode_no_fault_fsm.

(* a failing sink.  `decode_prefix m` = m steps of the fault-free loop (decode_step_f no_faults) from the initial
   state; `sink_hit sf s` = the next item of state s goes to a sink call that the plan sf makes fail.
   Either no state of the fault-free run is about to make the failing call and the result is the fault-free
   one, or the result is Err (DIo kind) with the target and outboard of the fault-free run stopped at the first
   such state, i.e. before the failing call. *)
Theorem C10_decode_sink_fault : forall (HO : hops) sf enc q target ob,
  ((forall m s1, (m < Nat.pow 2 LOOP_DEPTH)%nat -> decode_prefix HO m enc q target ob = inl s1 -> sink_hit HO sf s1 = false) /\
   decode_ranges_f HO sf enc q target ob = decode_ranges HO enc q target ob) \/
  (exists m st tg ob' nw ns it st',
     (m < Nat.pow 2 LOOP_DEPTH)%nat /\
     decode_prefix HO m enc q target ob = inl (st, tg, ob', nw, ns) /\
     (forall m' s1, (m' < m)%nat -> decode_prefix HO m' enc q target ob = inl s1 -> sink_hit HO sf s1 = false) /\
     dec_next HO st = Some (Ok it, st') /\
     match it with IParent _ _ _ => sf_save sf = Some ns | ILeaf _ _ => sf_target sf = Some nw end /\
     decode_ranges_f HO sf enc q target ob = (Err (DIo (sf_kind sf)), tg, ob', st')).
Proof. exact decode_sink_fault. Qed.
Print Assumptions C10_decode_sink_fault.

Theorem C10_decode_sink_fault_fsm : forall (HO : hops) sf enc q target ob,
  ((forall m s1, (m < Nat.pow 2 LOOP_DEPTH)%nat -> decode_prefix_fsm HO m enc q target ob = inl s1 -> sink_hit_fsm HO sf s1 = false) /\
   decode_ranges_fsm_f HO sf enc q target ob = decode_ranges_fsm HO enc q target ob) \/
  (exists m st tg ob' nw ns it st',
     (m < Nat.pow 2 LOOP_DEPTH)%nat /\
     decode_prefix_fsm HO m enc q target ob = inl (st, tg, ob', nw, ns) /\
     (forall m' s1, (m' < m)%nat -> decode_prefix_fsm HO m' enc q target ob = inl s1 -> sink_hit_fsm HO sf s1 = false) /\
     rd_next HO st = RMore st' (Ok it) /\
     match it with IParent _ _ _ => sf_save sf = Some ns | ILeaf _ _ => sf_target sf = Some nw end /\
     decode_ranges_fsm_f HO sf enc q target ob = (Err (DIo (sf_kind sf)), tg, ob', st')).
Proof. exact decode_fsm_sink_fault. Qed.
Print Assumptions C10_decode_sink_fault_fsm.

(* spelled out for the j-th target write: after m = j + ns fault-free steps (j writes done, ns saves done) the
   next item is a leaf; the error is returned with the target / outboard as they are then *)
Theorem C10_decode_target_fault : forall (HO : hops) j kind enc q target ob,
  decode_ranges_f HO (mkSF (Some j) None kind) enc q target ob = decode_ranges HO enc q target ob \/
  exists m st tg ob' ns off d st',
    steps m (decode_step_f HO no_faults) (dec_new HO (ob_root ob) (ob_tree ob) enc q, target, ob, 0, 0)
      = inl (st, tg, ob', j, ns) /\ N.of_nat m = j + ns /\
    dec_next HO st = Some (Ok (ILeaf off d), st') /\
    decode_ranges_f HO (mkSF (Some j) None kind) enc q target ob = (Err (DIo kind), tg, ob', st').
Proof. exact decode_target_fault. Qed.
Print Assumptions C10_decode_target_fault.

Theorem C10_decode_save_fault : forall (HO : hops) j kind enc q target ob,
  decode_ranges_f HO (mkSF None (Some j) kind) enc q target ob = decode_ranges HO enc q target ob \/
  exists m st tg ob' nw node l r st',
    steps m (decode_step_f HO no_faults) (dec_new HO (ob_root ob) (ob_tree ob) enc q, target, ob, 0, 0)
      = inl (st, tg, ob', nw, j) /\ N.of_nat m = nw + j /\
    dec_next HO st = Some (Ok (IParent node l r), st') /\
    decode_ranges_f HO (mkSF None (Some j) kind) enc q target ob = (Err (DIo kind), tg, ob', st').
Proof. exact decode_save_fault. Qed.
Print Assumptions C10_decode_save_fault.

Theorem C10_decode_target_fault_fsm : forall (HO : hops) j kind enc q target ob,
  decode_ranges_fsm_f HO (mkSF (Some j) None kind) enc q target ob = decode_ranges_fsm HO enc q target ob \/
  exists m st tg ob' ns off d st',
    steps m (decode_step_fsm_f HO no_faults) (rd_new HO (ob_root ob) q (ob_tree ob) enc, target, ob, 0, 0)
      = inl (st, tg, ob', j, ns) /\ N.of_nat m = j + ns /\
    rd_next HO st = RMore st' (Ok (ILeaf off d)) /\
    decode_ranges_fsm_f HO (mkSF (Some j) None kind) enc q target ob = (Err (DIo kind), tg, ob', st').
Proof. exact decode_fsm_target_fault. Qed.
Print Assumptions C10_decode_target_fault_fsm.

Theorem C10_decode_save_fault_fsm : forall (HO : hops) j kind enc q target ob,
  decode_ranges_fsm_f HO (mkSF None (Some j) kind) enc q target ob = decode_ranges_fsm HO enc q target ob \/
  exists m st tg ob' nw node l r st',
    steps m (decode_step_fsm_f HO no_faults) (rd_new HO (ob_root ob) q (ob_tree ob) enc, target, ob, 0, 0)
      = inl (st, tg, ob', nw, j) /\ N.of_nat m = nw + j /\
    rd_next HO st = RMore st' (Ok (IParent node l r)) /\
    decode_ranges_fsm_f HO (mkSF None (Some j) kind) enc q target ob = (Err (DIo kind), tg, ob', st').
Proof. exact decode_fsm_save_fault. Qed.
Print Assumptions C10_decode_save_fault_fsm.

(* a failing k-th read call: std read_exact returns that error and makes no further call, unless it is done
   (or has hit the end of the stream) within the first k calls; Interrupted is excluded: std retries it *)
Theorem C10_stream_read_fault : forall (HO : hops) (r : reader HO) len k kind,
  rd_fail HO r = Some (k, kind) -> kind <> KInterrupted -> rd_calls HO r <= k ->
  exists x r', read_exact_sync HO r len = (x, r') /\
    ((x = Err kind /\ rd_calls HO r' = k + 1) \/
     (rd_calls HO r' <= k /\
      ((len <= blen HO (rd_rest HO r) /\ x = Ok (firstn (N.to_nat len) (rd_rest HO r)) /\
        rd_rest HO r' = skipn (N.to_nat len) (rd_rest HO r)) \/
       (blen HO (rd_rest HO r) < len /\ x = Err KUnexpectedEof)))).
Proof. exact read_exact_sync_fault. Qed.
Print Assumptions C10_stream_read_fault.

(* the same for iroh-io's read_bytes_exact (tokio take(len).read_to_end) and for tokio's read_exact, both on
   schedules without Interrupted: neither retries an Interrupted of the transport *)
Theorem C10_stream_read_fault_tokio_bytes : forall (HO : hops) (r : reader HO) len k kind,
  rd_fail HO r = Some (k, kind) -> kind <> KInterrupted -> rd_calls HO r <= k ->
  (forall e, In e (rd_sched HO r) -> e <> EIntr) ->
  exists x r', tokio_read_bytes_exact HO r len = (x, r') /\
    ((x = Err kind /\ rd_calls HO r' = k + 1) \/
     (rd_calls HO r' <= k /\
      ((len <= blen HO (rd_rest HO r) /\ x = Ok (firstn (N.to_nat len) (rd_rest HO r)) /\
        rd_rest HO r' = skipn (N.to_nat len) (rd_rest HO r)) \/
       (blen HO (rd_rest HO r) < len /\ x = Err KUnexpectedEof)))).
Proof. exact tokio_read_bytes_exact_fault. Qed.
Print Assumptions C10_stream_read_fault_tokio_bytes.

Theorem C10_stream_read_fault_tokio : forall (HO : hops) (r : reader HO) len k kind,
  rd_fail HO r = Some (k, kind) -> kind <> KInterrupted -> rd_calls HO r <= k ->
  (forall e, In e (rd_sched HO r) -> e <> EIntr) ->
  exists x r', tokio_read_n HO r len = (x, r') /\
    ((x = Err kind /\ rd_calls HO r' = k + 1) \/
     (rd_calls HO r' <= k /\
      ((len <= blen HO (rd_rest HO r) /\ x = Ok (firstn (N.to_nat len) (rd_rest HO r)) /\
        rd_rest HO r' = skipn (N.to_nat len) (rd_rest HO r)) \/
       (blen HO (rd_rest HO r) < len /\ x = Err KUnexpectedEof)))).
Proof. exact tokio_read_n_fault. Qed.
Print Assumptions C10_stream_read_fault_tokio.

Theorem C10_stream_read_fault_now : forall (HO : hops) (r : reader HO) len k kind,
  rd_fail HO r = Some (k, kind) -> kind <> KInterrupted -> rd_calls HO r = k -> 0 < len ->
  exists r', read_exact_sync HO r len = (Err kind, r') /\ rd_calls HO r' = k + 1 /\ rd_rest HO r' = rd_rest HO r.
Proof. exact read_exact_sync_fault_now. Qed.
Print Assumptions C10_stream_read_fault_now.

Theorem C10_stream_read_interrupted_fault_is_retried : forall (HO : hops),
  read_exact_sync HO (mkRd HO [bzero HO] [EPending] 0 (Some (0, KInterrupted))) 1
  = (Ok [bzero HO], mkRd HO [] [] 2 (Some (0, KInterrupted))).
Proof. exact read_exact_sync_interrupted_fault_is_retried. Qed.
Print Assumptions C10_stream_read_interrupted_fault_is_retried.

(* the sync decoder step whose stream read is the failing call returns what the OStreamIn entry of dec_sites
   says (maybe_parent_not_found / maybe_leaf_not_found of the kind), after exactly one more read call *)
Theorem C10_decoder_read_fault : forall (HO : hops) (st : dstate_r HO) k kind c inner',
  response_next (dr_inner HO st) = Some (c, inner') ->
  rd_fail HO (dr_rd HO st) = Some (k, kind) -> kind <> KInterrupted -> rd_calls HO (dr_rd HO st) = k ->
  0 < chunk_size c ->
  exists e rd', dec_next_r HO st = Some (Err e, mkDR HO inner' (dr_stack HO st) rd') /\
    rd_calls HO rd' = k + 1 /\ rd_rest HO rd' = rd_rest HO (dr_rd HO st) /\
    e = match c with CParent node _ _ _ _ => maybe_parent_not_found kind node
                   | CLeaf start _ _ _ => maybe_leaf_not_found kind start end.
Proof. exact dec_next_r_read_fault. Qed.
Print Assumptions C10_decoder_read_fault.

(* ======================================================================================================
   Gap audit additions (Proofs/GapC10Read.v, Proofs/GapC10Source.v)
   ====================================================================================================== *)
From BaoV Require Import Model.Fsm Proofs.ObCreate Proofs.GapC10Read Proofs.GapC10Source.

(* ---- a reader whose k-th call fails, under the whole runs ---- *)
(* the fsm twin of C10_decoder_read_fault (parents: tokio read_exact, leaves: tokio take(len).read_to_end; neither
   retries an Interrupted, so no Interrupted in the schedule) *)
Theorem C10_decoder_read_fault_fsm : forall (HO : hops) (st : rstate_r HO) k kind c iter',
  response_next (rr_iter HO st) = Some (c, iter') ->
  rd_fail HO (rr_rd HO st) = Some (k, kind) -> kind <> KInterrupted -> rd_calls HO (rr_rd HO st) = k ->
  (forall e, In e (rd_sched HO (rr_rd HO st)) -> e <> EIntr) ->
  0 < chunk_size c ->
  exists e rd', rd_next_r HO st = Some (Err e, mkRR HO iter' (rr_stack HO st) rd') /\
    rd_calls HO rd' = k + 1 /\ rd_rest HO rd' = rd_rest HO (rr_rd HO st) /\
    e = match c with CParent node _ _ _ _ => maybe_parent_not_found kind node
                   | CLeaf start _ _ _ => maybe_leaf_not_found kind start end.
Proof. exact rd_next_r_read_fault. Qed.
Print Assumptions C10_decoder_read_fault_fsm.

(* the sync decoder run to its end over ANY stream (honest or not), any schedule, the k-th read call failing:
   either the fault is never reached (at most k calls; items and outcome are those of the plain run), or the run
   ends with the io error / the not-found error naming the item c being read, the items yielded are a prefix of
   the plain run's, and the reader has been called exactly k+1 times *)
Theorem C10_decode_run_read_fault : forall (HO : hops) root t (stream : bytes HO) (sched : list ev) q k kind,
  kind <> KInterrupted ->
  let x := dec_run_r HO (dec_new_r HO root t (mkRd HO stream sched 0 (Some (k, kind))) q) in
  let y := dec_run HO (dec_new HO root t stream q) in
  (fst x = fst y /\ rd_calls HO (dr_rd HO (snd x)) <= k) \/
  (exists more c inner,
     fst (fst y) = fst (fst x) ++ more /\
     response_next inner = Some (c, dr_inner HO (snd x)) /\
     snd (fst x) = Failed (match c with
                           | CParent node _ _ _ _ => maybe_parent_not_found kind node
                           | CLeaf start _ _ _ => maybe_leaf_not_found kind start
                           end) /\
     rd_calls HO (dr_rd HO (snd x)) = k + 1).
Proof. exact dec_run_read_fault. Qed.
Print Assumptions C10_decode_run_read_fault.

Theorem C10_decode_run_read_fault_fsm : forall (HO : hops) root q t (stream : bytes HO) (sched : list ev) k kind,
  kind <> KInterrupted -> (forall e, In e sched -> e <> EIntr) ->
  let x := rd_run_r HO (rd_new_r HO root q t (mkRd HO stream sched 0 (Some (k, kind)))) in
  let y := rd_run HO (rd_new HO root q t stream) in
  (fst x = fst y /\ rd_calls HO (rr_rd HO (snd x)) <= k) \/
  (exists more c iter,
     fst (fst y) = fst (fst x) ++ more /\
     response_next iter = Some (c, rr_iter HO (snd x)) /\
     snd (fst x) = Failed (match c with
                           | CParent node _ _ _ _ => maybe_parent_not_found kind node
                           | CLeaf start _ _ _ => maybe_leaf_not_found kind start
                           end) /\
     rd_calls HO (rr_rd HO (snd x)) = k + 1).
Proof. exact rd_run_read_fault. Qed.
Print Assumptions C10_decode_run_read_fault_fsm.

Theorem C10_read_fault_nonvacuous : forall (HO : hops),
  fst (dec_run_r HO (dec_new_r HO [] (mkTree 2048 0) (mkRd HO [] [EPending; EFrag 3] 0 (Some (0, KOther))) [0]))
    = ([], Failed (DIo KOther)) /\
  fst (dec_run_r HO (dec_new_r HO [] (mkTree 2048 0) (mkRd HO [] [] 0 (Some (0, KUnexpectedEof))) [0]))
    = ([], Failed (DParentNotFound 0)) /\
  fst (rd_run_r HO (rd_new_r HO [] [0] (mkTree 2048 0) (mkRd HO [] [EPending; EFrag 3] 0 (Some (0, KConnectionReset)))))
    = ([], Failed (DIo KConnectionReset)).
Proof. exact dec_run_read_fault_nonvacuous. Qed.
Print Assumptions C10_read_fault_nonvacuous.

(* outboard_post_order reading the blob from a stream whose k-th read fails: that error, the pairs written so far
   are a prefix of the fault-free output, no further read *)
Theorem C10_outboard_post_order_read_fault : forall (HO : hops) t (data : bytes HO) (sched : list ev) k kind,
  kind <> KInterrupted ->
  let x := outboard_post_order_r HO t (mkRd HO data sched 0 (Some (k, kind))) in
  let y := outboard_post_order HO t data in
  (fst x = fst y /\ rd_calls HO (snd x) <= k) \/
  (fst (fst x) = Err kind /\ (exists more, snd (fst y) = snd (fst x) ++ more) /\ rd_calls HO (snd x) = k + 1).
Proof. exact outboard_post_order_read_fault. Qed.
Print Assumptions C10_outboard_post_order_read_fault.

(* sync::outboard into any outboard store: the store at the failure is reached from the initial one by
   successful saves (save_all .. l1), and the fault-free final store from it by further saves (l2) *)
Theorem C10_outboard_read_fault : forall (HO : hops) t (data : bytes HO) (sched : list ev) (ob : outboard HO) k kind,
  kind <> KInterrupted ->
  let x := outboard_impl_r HO t (mkRd HO data sched 0 (Some (k, kind))) ob in
  let y := outboard_impl HO t data ob in
  (fst x = fst y /\ rd_calls HO (snd x) <= k) \/
  (fst (fst x) = Err kind /\ rd_calls HO (snd x) = k + 1 /\
   exists l1 l2, save_all HO ob l1 = Ok (snd (fst x)) /\ save_all HO (snd (fst x)) l2 = Ok (snd (fst y))).
Proof. exact outboard_impl_read_fault. Qed.
Print Assumptions C10_outboard_read_fault.

Theorem C10_outboard_read_fault_nonvacuous : forall (HO : hops),
  fst (fst (outboard_post_order_r HO (mkTree 2048 0) (mkRd HO (repeat (bzero HO) 2048) [EFrag 1000] 0 (Some (2, KOther)))))
    = Err KOther /\
  rd_calls HO (snd (outboard_post_order_r HO (mkTree 2048 0) (mkRd HO (repeat (bzero HO) 2048) [EFrag 1000] 0 (Some (2, KOther)))))
    = 3.
Proof. exact outboard_read_fault_nonvacuous. Qed.
Print Assumptions C10_outboard_read_fault_nonvacuous.

(* ---- a blob that ends early ("short data during outboard creation"), sync and fsm entry points ---- *)
Theorem C10_outboard_truncated : forall (HO : hops) t (data more : bytes HO) (ob : outboard HO),
  fst (outboard_impl HO t data ob) = fst (outboard_impl HO t (data ++ more) ob) \/
  (fst (fst (outboard_impl HO t data ob)) = Err KUnexpectedEof /\
   exists l1 l2, save_all HO ob l1 = Ok (snd (fst (outboard_impl HO t data ob))) /\
     save_all HO (snd (fst (outboard_impl HO t data ob))) l2 = Ok (snd (fst (outboard_impl HO t (data ++ more) ob)))).
Proof. exact outboard_impl_truncated. Qed.
Print Assumptions C10_outboard_truncated.
Theorem C10_outboard_truncated_fsm : forall (HO : hops) t (data more : bytes HO) (ob : outboard HO),
  fst (outboard_impl_fsm HO t data ob) = fst (outboard_impl_fsm HO t (data ++ more) ob) \/
  (fst (fst (outboard_impl_fsm HO t data ob)) = Err KUnexpectedEof /\
   exists l1 l2, save_all HO ob l1 = Ok (snd (fst (outboard_impl_fsm HO t data ob))) /\
     save_all HO (snd (fst (outboard_impl_fsm HO t data ob))) l2 = Ok (snd (fst (outboard_impl_fsm HO t (data ++ more) ob)))).
Proof. exact outboard_impl_fsm_truncated. Qed.
Print Assumptions C10_outboard_truncated_fsm.
Theorem C10_outboard_post_order_truncated : forall (HO : hops) t (data more : bytes HO),
  fst (outboard_post_order HO t data) = fst (outboard_post_order HO t (data ++ more)) \/
  (fst (fst (outboard_post_order HO t data)) = Err KUnexpectedEof /\
   exists later, snd (fst (outboard_post_order HO t (data ++ more))) = snd (fst (outboard_post_order HO t data)) ++ later).
Proof. exact outboard_post_order_truncated. Qed.
Print Assumptions C10_outboard_post_order_truncated.
Theorem C10_outboard_post_order_truncated_fsm : forall (HO : hops) t (data more : bytes HO),
  fst (outboard_post_order_fsm HO t data) = fst (outboard_post_order_fsm HO t (data ++ more)) \/
  (fst (fst (outboard_post_order_fsm HO t data)) = Err KUnexpectedEof /\
   exists later, snd (fst (outboard_post_order_fsm HO t (data ++ more))) = snd (fst (outboard_post_order_fsm HO t data)) ++ later).
Proof. exact outboard_post_order_fsm_truncated. Qed.
Print Assumptions C10_outboard_post_order_truncated_fsm.
Theorem C10_init_from_truncated : forall (HO : hops) (ob : outboard HO) (data more : bytes HO),
  init_from HO ob data = init_from HO ob (data ++ more) \/ init_from HO ob data = Err KUnexpectedEof.
Proof. exact init_from_truncated. Qed.
Print Assumptions C10_init_from_truncated.
Theorem C10_init_from_truncated_fsm : forall (HO : hops) (ob : outboard HO) (data more : bytes HO),
  init_from_fsm HO ob data = init_from_fsm HO ob (data ++ more) \/ init_from_fsm HO ob data = Err KUnexpectedEof.
Proof. exact init_from_fsm_truncated. Qed.
Print Assumptions C10_init_from_truncated_fsm.

(* ---- failing SOURCES under the operational model ----
   (data', ob') answer every positioned read / load as (data, ob) do, or fail it with an io error.  Then the
   operation gives the same result, or exactly such an io error k (EncodeError::Io k / Err k: never
   LeafWrite / ParentWrite, a hash mismatch, Ok or a panic), having emitted a prefix of the other run's output. *)
Theorem C10_encode_ranges_source_fault : forall (HO : hops) (data data' : bytes HO) (ob ob' : outboard HO) q,
  ob_tree ob' = ob_tree ob ->
  (forall n, load_sync HO ob' n = load_sync HO ob n \/ exists k, load_sync HO ob' n = Err k) ->
  (forall o l, read_exact_at HO data' o l = read_exact_at HO data o l \/ exists k, read_exact_at HO data' o l = Err k) ->
  encode_ranges HO data' ob' q = encode_ranges HO data ob q \/
  exists k more, fst (encode_ranges HO data' ob' q) = Err (EIo k) /\
    snd (encode_ranges HO data ob q) = snd (encode_ranges HO data' ob' q) ++ more /\
    ((exists n, load_sync HO ob' n = Err k) \/ (exists o l, read_exact_at HO data' o l = Err k)).
Proof. exact encode_ranges_source_fault. Qed.
Print Assumptions C10_encode_ranges_source_fault.

Theorem C10_encode_ranges_source_fault_fsm : forall (HO : hops) (data data' : bytes HO) (ob ob' : outboard HO) q,
  ob_tree ob' = ob_tree ob ->
  (forall n, load_fsm HO ob' n = load_fsm HO ob n \/ exists k, load_fsm HO ob' n = Err k) ->
  (forall o l, read_exact_at HO data' o l = read_exact_at HO data o l \/ exists k, read_exact_at HO data' o l = Err k) ->
  encode_ranges_fsm HO data' ob' q = encode_ranges_fsm HO data ob q \/
  exists k more, fst (encode_ranges_fsm HO data' ob' q) = Err (EIo k) /\
    snd (encode_ranges_fsm HO data ob q) = snd (encode_ranges_fsm HO data' ob' q) ++ more /\
    ((exists n, load_fsm HO ob' n = Err k) \/ (exists o l, read_exact_at HO data' o l = Err k)).
Proof. exact encode_ranges_fsm_source_fault. Qed.
Print Assumptions C10_encode_ranges_source_fault_fsm.

Theorem C10_encode_ranges_validated_source_fault : forall (HO : hops) (data data' : bytes HO) (ob ob' : outboard HO) q,
  ob_tree ob' = ob_tree ob -> ob_root ob' = ob_root ob ->
  (forall n, load_sync HO ob' n = load_sync HO ob n \/ exists k, load_sync HO ob' n = Err k) ->
  (forall o l, read_exact_at HO data' o l = read_exact_at HO data o l \/ exists k, read_exact_at HO data' o l = Err k) ->
  encode_ranges_validated HO data' ob' q = encode_ranges_validated HO data ob q \/
  exists k more, fst (encode_ranges_validated HO data' ob' q) = Err (EIo k) /\
    snd (encode_ranges_validated HO data ob q) = snd (encode_ranges_validated HO data' ob' q) ++ more /\
    ((exists n, load_sync HO ob' n = Err k) \/ (exists o l, read_exact_at HO data' o l = Err k)).
Proof. exact encode_ranges_validated_source_fault. Qed.
Print Assumptions C10_encode_ranges_validated_source_fault.

Theorem C10_encode_ranges_validated_source_fault_fsm : forall (HO : hops) (data data' : bytes HO) (ob ob' : outboard HO) q,
  ob_tree ob' = ob_tree ob -> ob_root ob' = ob_root ob ->
  (forall n, load_fsm HO ob' n = load_fsm HO ob n \/ exists k, load_fsm HO ob' n = Err k) ->
  (forall o l, read_exact_at HO data' o l = read_exact_at HO data o l \/ exists k, read_exact_at HO data' o l = Err k) ->
  encode_ranges_validated_fsm HO data' ob' q = encode_ranges_validated_fsm HO data ob q \/
  exists k more, fst (encode_ranges_validated_fsm HO data' ob' q) = Err (EIo k) /\
    snd (encode_ranges_validated_fsm HO data ob q) = snd (encode_ranges_validated_fsm HO data' ob' q) ++ more /\
    ((exists n, load_fsm HO ob' n = Err k) \/ (exists o l, read_exact_at HO data' o l = Err k)).
Proof. exact encode_ranges_validated_fsm_source_fault. Qed.
Print Assumptions C10_encode_ranges_validated_source_fault_fsm.

(* the item stream (mixed::traverse_ranges_validated): Size, the items so far, then Error(Io k) as the last item *)
Theorem C10_traverse_source_fault : forall (HO : hops) (data data' : bytes HO) (ob ob' : outboard HO) q,
  ob_tree ob' = ob_tree ob -> ob_root ob' = ob_root ob ->
  (forall n, load_sync HO ob' n = load_sync HO ob n \/ exists k, load_sync HO ob' n = Err k) ->
  (forall o l, read_exact_at HO data' o l = read_exact_at HO data o l \/ exists k, read_exact_at HO data' o l = Err k) ->
  traverse_ranges_validated HO data' ob' q = traverse_ranges_validated HO data ob q \/
  exists k its,
    traverse_ranges_validated HO data' ob' q
      = Some (ESize (tsize (ob_tree ob)) :: map EItem its ++ [EError (EIo k)]) /\
    ((exists n, load_sync HO ob' n = Err k) \/ (exists o l, read_exact_at HO data' o l = Err k)) /\
    (forall l, traverse_ranges_validated HO data ob q = Some l ->
       exists more last, l = ESize (tsize (ob_tree ob)) :: map EItem (its ++ more) ++ [last]).
Proof. exact traverse_ranges_validated_source_fault. Qed.
Print Assumptions C10_traverse_source_fault.

(* the validators forward the error as the last stream item: the ranges yielded before it are a prefix *)
Theorem C10_valid_ranges_source_fault : forall (HO : hops) (data data' : bytes HO) (ob ob' : outboard HO) q,
  ob_tree ob' = ob_tree ob -> ob_root ob' = ob_root ob ->
  (forall n, load_sync HO ob' n = load_sync HO ob n \/ exists k, load_sync HO ob' n = Err k) ->
  (forall o l, read_exact_at HO data' o l = read_exact_at HO data o l \/ exists k, read_exact_at HO data' o l = Err k) ->
  valid_ranges HO ob' data' q = valid_ranges HO ob data q \/
  exists k more, snd (valid_ranges HO ob' data' q) = Err k /\
    fst (valid_ranges HO ob data q) = fst (valid_ranges HO ob' data' q) ++ more /\
    ((exists n, load_sync HO ob' n = Err k) \/ (exists o l, read_exact_at HO data' o l = Err k)).
Proof. exact valid_ranges_source_fault. Qed.
Print Assumptions C10_valid_ranges_source_fault.

Theorem C10_valid_ranges_source_fault_fsm : forall (HO : hops) (data data' : bytes HO) (ob ob' : outboard HO) q,
  ob_tree ob' = ob_tree ob -> ob_root ob' = ob_root ob ->
  (forall n, load_fsm HO ob' n = load_fsm HO ob n \/ exists k, load_fsm HO ob' n = Err k) ->
  (forall o l, read_exact_at HO data' o l = read_exact_at HO data o l \/ exists k, read_exact_at HO data' o l = Err k) ->
  valid_ranges_fsm HO ob' data' q = valid_ranges_fsm HO ob data q \/
  exists k more, snd (valid_ranges_fsm HO ob' data' q) = Err k /\
    fst (valid_ranges_fsm HO ob data q) = fst (valid_ranges_fsm HO ob' data' q) ++ more /\
    ((exists n, load_fsm HO ob' n = Err k) \/ (exists o l, read_exact_at HO data' o l = Err k)).
Proof. exact valid_ranges_fsm_source_fault. Qed.
Print Assumptions C10_valid_ranges_source_fault_fsm.

Theorem C10_valid_outboard_ranges_source_fault : forall (HO : hops) (ob ob' : outboard HO) q,
  ob_tree ob' = ob_tree ob -> ob_root ob' = ob_root ob ->
  (forall n, load_sync HO ob' n = load_sync HO ob n \/ exists k, load_sync HO ob' n = Err k) ->
  valid_outboard_ranges HO ob' q = valid_outboard_ranges HO ob q \/
  exists k more, snd (valid_outboard_ranges HO ob' q) = Err k /\
    fst (valid_outboard_ranges HO ob q) = fst (valid_outboard_ranges HO ob' q) ++ more /\
    (exists n, load_sync HO ob' n = Err k).
Proof. exact valid_outboard_ranges_source_fault. Qed.
Print Assumptions C10_valid_outboard_ranges_source_fault.

Theorem C10_valid_outboard_ranges_source_fault_fsm : forall (HO : hops) (ob ob' : outboard HO) q,
  ob_tree ob' = ob_tree ob -> ob_root ob' = ob_root ob ->
  (forall n, load_fsm HO ob' n = load_fsm HO ob n \/ exists k, load_fsm HO ob' n = Err k) ->
  valid_outboard_ranges_fsm HO ob' q = valid_outboard_ranges_fsm HO ob q \/
  exists k more, snd (valid_outboard_ranges_fsm HO ob' q) = Err k /\
    fst (valid_outboard_ranges_fsm HO ob q) = fst (valid_outboard_ranges_fsm HO ob' q) ++ more /\
    (exists n, load_fsm HO ob' n = Err k).
Proof. exact valid_outboard_ranges_fsm_source_fault. Qed.
Print Assumptions C10_valid_outboard_ranges_source_fault_fsm.

Theorem C10_copy_source_fault : forall (HO : hops) (from from' to : outboard HO),
  ob_tree from' = ob_tree from ->
  (forall n, load_sync HO from' n = load_sync HO from n \/ exists k, load_sync HO from' n = Err k) ->
  copy HO from' to = copy HO from to \/
  exists k, copy HO from' to = Err k /\ exists n, load_sync HO from' n = Err k.
Proof. exact copy_source_fault. Qed.
Print Assumptions C10_copy_source_fault.
Theorem C10_copy_source_fault_fsm : forall (HO : hops) (from from' to : outboard HO),
  ob_tree from' = ob_tree from ->
  (forall n, load_fsm HO from' n = load_fsm HO from n \/ exists k, load_fsm HO from' n = Err k) ->
  copy_fsm HO from' to = copy_fsm HO from to \/
  exists k, copy_fsm HO from' to = Err k /\ exists n, load_fsm HO from' n = Err k.
Proof. exact copy_fsm_source_fault. Qed.
Print Assumptions C10_copy_source_fault_fsm.

(* the hypotheses are met by truncated stores (the failures byte-vector sources can produce) ... *)
Theorem C10_source_fault_nonvacuous_data : forall (HO : hops) (d : bytes HO) n o l,
  read_exact_at HO (firstn n d) o l = read_exact_at HO d o l \/ exists k, read_exact_at HO (firstn n d) o l = Err k.
Proof. exact read_exact_at_truncated_deg. Qed.
Print Assumptions C10_source_fault_nonvacuous_data.
Theorem C10_source_fault_nonvacuous_outboard : forall (HO : hops) (k : ob_kind) root t (d : bytes HO) n node,
  k = PreIO \/ k = PostIO ->
  load_sync HO (mkOb k root t (firstn n d)) node = load_sync HO (mkOb k root t d) node \/
  load_sync HO (mkOb k root t (firstn n d)) node = Err KUnexpectedEof.
Proof. exact load_sync_truncated. Qed.
Print Assumptions C10_source_fault_nonvacuous_outboard.
(* ... and the failing branch occurs: a one-byte blob whose data file is empty *)
Theorem C10_source_fault_nonvacuous_run : forall (HO : hops),
  (forall o l, read_exact_at HO (firstn 0 [bzero HO]) o l = read_exact_at HO [bzero HO] o l \/
               exists k, read_exact_at HO (firstn 0 [bzero HO]) o l = Err k) /\
  encode_ranges_validated HO (firstn 0 [bzero HO]) (mkOb EmptyOb (hash_subtree HO 0 [bzero HO] true) (mkTree 1 0) []) [0]
  = (Err (EIo KUnexpectedEof), []).
Proof. exact encode_ranges_source_fault_nonvacuous. Qed.
Print Assumptions C10_source_fault_nonvacuous_run.
(* the fsm outboard loads of the model cannot fail (a short read of an io-backed outboard is a zero pair): for
   the fsm theorems above only the data hypothesis can be met by a failure *)
Theorem C10_fsm_loads_never_fail : forall (HO : hops) (ob : outboard HO) node k, load_fsm HO ob node <> Err k.
Proof. exact load_fsm_never_err. Qed.
Print Assumptions C10_fsm_loads_never_fail.

(* ---- a failing WRITER under an operational run (environment model of Proofs/GapC11Env.v: `encode_ranges_env` is
   the model's sync encode_ranges with its positioned reads and its write_all calls going through scheduled
   environments; the sink is full after `cap` bytes).  Whatever the read and write schedules: everything fits and
   the result is the model's, or the result is Io(WriteZero) and the sink holds exactly the first `cap` bytes of
   the fault-free output ---- *)
From BaoV Require Import Proofs.GapC11Env Proofs.GapC10Sink.
Theorem C10_encode_ranges_sink_full : forall (HO : hops) (p : pstore HO) (ob : outboard HO) q ws cap,
  exists p' w',
    encode_ranges_env HO p ob q (mkSink HO [] ws (Some cap))
      = ((if blen HO (snd (encode_ranges HO (ps_data HO p) ob q)) <=? cap
          then fst (encode_ranges HO (ps_data HO p) ob q) else Err (EIo KWriteZero)), p', w') /\
    sk_out HO w' = take HO cap (snd (encode_ranges HO (ps_data HO p) ob q)).
Proof. exact encode_ranges_env_full. Qed.
Print Assumptions C10_encode_ranges_sink_full.

(* ---- observation (sync / fsm divergence, by design of fsm's load: src/io/fsm.rs:157-168): an io-backed outboard
   FILE that is too short is an io error for the sync code, but a zero pair for the fsm code: the non-validating
   fsm encoder then SENDS ZERO HASHES AND SUCCEEDS, the validating one reports a hash mismatch ---- *)
Theorem C10_fsm_short_outboard_is_not_an_io_error : forall (HO : hops),
  let t := mkTree 2048 0 in
  let data := repeat (bzero HO) 2048 in
  let ob := mkOb PreIO (zero_hash HO) t [] in
  encode_ranges HO data ob [0] = (Err (EIo KUnexpectedEof), []) /\
  encode_ranges_fsm HO data ob [0] = (Ok tt, zero_hash HO ++ zero_hash HO ++ data) /\
  fst (encode_ranges_validated HO data ob [0]) = Err (EIo KUnexpectedEof) /\
  (bytes_eqb HO (parent_cv HO (zero_hash HO) (zero_hash HO) true) (zero_hash HO) = false ->
   fst (encode_ranges_validated_fsm HO data ob [0]) = Err (EParentHashMismatch 0)).
Proof. exact fsm_short_outboard_is_not_an_io_error. Qed.
Print Assumptions C10_fsm_short_outboard_is_not_an_io_error.
