(* C10 - io failures surface at every operation index.  Statements only; proofs in Proofs/. *)
From BaoV Require Import Model.IOCalls Proofs.IOReadExact Proofs.IOFaults Proofs.IOSinkFaults.

(* first-failure semantics: a fault beyond the calls made on that object changes nothing *)
Theorem C10_not_reached : forall sites fobj k kind ok,
  N.of_nat (length (filter (fun s => obj_eqb (s_obj s) fobj) sites)) <= k ->
  with_fault sites fobj k kind ok [] = (ok, sites).
Proof. exact with_fault_not_reached. Qed.
Print Assumptions C10_not_reached.

(* otherwise the error of the (k+1)-th call on the object is the result; the log is the fault-free call list
   up to and including that call: k calls on the object before it, none after it *)
Theorem C10_surfaces : forall sites fobj k kind ok,
  k < N.of_nat (length (filter (fun s => obj_eqb (s_obj s) fobj) sites)) ->
  exists pre s post,
    sites = pre ++ s :: post /\ obj_eqb (s_obj s) fobj = true /\
    N.of_nat (length (filter (fun s => obj_eqb (s_obj s) fobj) pre)) = k /\
    with_fault sites fobj k kind ok [] = (s_err s kind, pre ++ [s]).
Proof. exact with_fault_surfaces. Qed.
Print Assumptions C10_surfaces.

Theorem C10_surfaces_log : forall sites fobj k kind ok,
  k < N.of_nat (length (filter (fun s => obj_eqb (s_obj s) fobj) sites)) ->
  exists pre s post,
    with_fault sites fobj k kind ok [] = (s_err s kind, pre ++ [s]) /\
    sites = (pre ++ [s]) ++ post /\ obj_eqb (s_obj s) fobj = true /\
    N.of_nat (length (filter (fun s => obj_eqb (s_obj s) fobj) (pre ++ [s]))) = k + 1.
Proof. exact with_fault_log. Qed.
Print Assumptions C10_surfaces_log.

(* a failing call never reads as success or as a hash mismatch *)
Theorem C10_never_success : forall (HO : hops),
  (forall t ws s, In s (create_sites t ws) ->
     forall k, fst (s_err s k) <> 0 /\ fst (s_err s k) <> 1 /\ fst (s_err s k) <> 2) /\
  (forall t s, In s (create_po_sites t) ->
     forall k, fst (s_err s k) <> 0 /\ fst (s_err s k) <> 1 /\ fst (s_err s k) <> 2) /\
  (forall fsm_ validated t data q s, In s (enc_sites HO fsm_ validated t data q) ->
     forall k, fst (s_err s k) <> 0 /\ fst (s_err s k) <> 1 /\ fst (s_err s k) <> 2) /\
  (forall from s, In s (copy_sites HO from) ->
     forall k, fst (s_err s k) <> 0 /\ fst (s_err s k) <> 1 /\ fst (s_err s k) <> 2) /\
  (forall t q s, In s (valid_ranges_sites t q) ->
     forall k, fst (s_err s k) <> 0 /\ fst (s_err s k) <> 1 /\ fst (s_err s k) <> 2) /\
  (forall t q s, In s (dec_sites t q) ->
     forall k, fst (s_err s k) <> 0 /\ fst (s_err s k) <> 3 /\ fst (s_err s k) <> 4).
Proof. exact never_success. Qed.
Print Assumptions C10_never_success.

(* creation, copy and the validator report every failure as a plain io error *)
Theorem C10_plain_io : forall (HO : hops),
  (forall t ws s, In s (create_sites t ws) -> forall k, s_err s k = (6, kcode k)) /\
  (forall t s, In s (create_po_sites t) -> forall k, s_err s k = (6, kcode k)) /\
  (forall from s, In s (copy_sites HO from) -> forall k, s_err s k = (6, kcode k)) /\
  (forall t q s, In s (valid_ranges_sites t q) -> forall k, s_err s k = (6, kcode k)).
Proof. exact plain_io_sites. Qed.
Print Assumptions C10_plain_io.

(* decoder: UnexpectedEof on a stream read is not-found (naming the item), everything else is Io *)
Theorem C10_dec_classification : forall t q s, In s (dec_sites t q) ->
  (s_obj s = OStreamIn -> fst (s_err s KUnexpectedEof) = 1 \/ fst (s_err s KUnexpectedEof) = 2) /\
  (forall kind, s_obj s <> OStreamIn \/ kind <> KUnexpectedEof -> s_err s kind = (5, kcode kind)).
Proof. exact dec_sites_class. Qed.
Print Assumptions C10_dec_classification.

Theorem C10_dec_not_found_names_item : forall t q s, In s (dec_sites t q) -> s_obj s = OStreamIn ->
  exists c, In c (response_iter t (truncate_ranges q (tsize t))) /\ s_a s = chunk_size c /\
    s_err s KUnexpectedEof = match c with CParent node _ _ _ _ => (1, node) | CLeaf start _ _ _ => (2, start) end.
Proof. exact dec_sites_names. Qed.
Print Assumptions C10_dec_not_found_names_item.

(* encoders: fsm maps ConnectionReset on a stream write to ParentWrite / LeafWrite; sync never does *)
Theorem C10_enc_classification_fsm : forall (HO : hops) validated t data q s, In s (enc_sites HO true validated t data q) ->
  (s_obj s = OStreamOut -> fst (s_err s KConnectionReset) = 3 \/ fst (s_err s KConnectionReset) = 4) /\
  (forall kind, s_obj s <> OStreamOut \/ kind <> KConnectionReset -> s_err s kind = (6, kcode kind)).
Proof. exact enc_sites_class_fsm. Qed.
Print Assumptions C10_enc_classification_fsm.

Theorem C10_enc_write_failed_names_item : forall (HO : hops) validated t data q s,
  In s (enc_sites HO true validated t data q) -> s_obj s = OStreamOut ->
  exists c, In c (pre_order_chunks_iter t (if validated then truncate_ranges q (tsize t) else q) 0) /\
    s_err s KConnectionReset = match c with CParent node _ _ _ _ => (3, node) | CLeaf start _ _ _ => (4, start) end.
Proof. exact enc_sites_names. Qed.
Print Assumptions C10_enc_write_failed_names_item.

Theorem C10_enc_classification_sync : forall (HO : hops) validated t data q s, In s (enc_sites HO false validated t data q) ->
  forall kind, s_err s kind = (6, kcode kind).
Proof. exact enc_sites_class_sync. Qed.
Print Assumptions C10_enc_classification_sync.

(* decode_ranges with the sink faults switched off is decode_ranges *)
Theorem C10_decode_no_fault : forall (HO : hops) enc q target ob,
  decode_ranges_f HO no_faults enc q target ob = decode_ranges HO enc q target ob.
Proof. exact decode_no_fault. Qed.
Print Assumptions C10_decode_no_fault.
Theorem C10_decode_no_fault_fsm : forall (HO : hops) enc q target ob,
  decode_ranges_fsm_f HO no_faults enc q target ob = decode_ranges_fsm HO enc q target ob.
Proof. exact decode_fsm_no_fault. Qed.
Print Assumptions C10_decode_no_fault_fsm.

(* a failing sink.  `decode_prefix m` = m steps of the fault-free loop (decode_step_f no_faults) from the initial
   state; `sink_hit sf s` = the next item of state s goes to a sink call that the plan sf makes fail.
   Either no state of the fault-free run is about to make the failing call and the result is the fault-free
   one, or the result is Err (DIo kind) with the target and outboard of the fault-free run stopped at the first
   such state, i.e. before the failing call. *)
Theorem C10_decode_sink_fault : forall (HO : hops) sf enc q target ob,
  ((forall m s1, (m < Nat.pow 2 LOOP_DEPTH)%nat -> decode_prefix HO m enc q target ob = inl s1 -> sink_hit HO sf s1 = false) /\
   decode_ranges_f HO sf enc q target ob = decode_ranges HO enc q target ob) \/
  (exists m st tg ob' nw ns it st',
     (m < Nat.pow 2 LOOP_DEPTH)%nat /\
     decode_prefix HO m enc q target ob = inl (st, tg, ob', nw, ns) /\
     (forall m' s1, (m' < m)%nat -> decode_prefix HO m' enc q target ob = inl s1 -> sink_hit HO sf s1 = false) /\
     dec_next HO st = Some (Ok it, st') /\
     match it with IParent _ _ _ => sf_save sf = Some ns | ILeaf _ _ => sf_target sf = Some nw end /\
     decode_ranges_f HO sf enc q target ob = (Err (DIo (sf_kind sf)), tg, ob', st')).
Proof. exact decode_sink_fault. Qed.
Print Assumptions C10_decode_sink_fault.

Theorem C10_decode_sink_fault_fsm : forall (HO : hops) sf enc q target ob,
  ((forall m s1, (m < Nat.pow 2 LOOP_DEPTH)%nat -> decode_prefix_fsm HO m enc q target ob = inl s1 -> sink_hit_fsm HO sf s1 = false) /\
   decode_ranges_fsm_f HO sf enc q target ob = decode_ranges_fsm HO enc q target ob) \/
  (exists m st tg ob' nw ns it st',
     (m < Nat.pow 2 LOOP_DEPTH)%nat /\
     decode_prefix_fsm HO m enc q target ob = inl (st, tg, ob', nw, ns) /\
     (forall m' s1, (m' < m)%nat -> decode_prefix_fsm HO m' enc q target ob = inl s1 -> sink_hit_fsm HO sf s1 = false) /\
     rd_next HO st = RMore st' (Ok it) /\
     match it with IParent _ _ _ => sf_save sf = Some ns | ILeaf _ _ => sf_target sf = Some nw end /\
     decode_ranges_fsm_f HO sf enc q target ob = (Err (DIo (sf_kind sf)), tg, ob', st')).
Proof. exact decode_fsm_sink_fault. Qed.
Print Assumptions C10_decode_sink_fault_fsm.

(* spelled out for the j-th target write: after m = j + ns fault-free steps (j writes done, ns saves done) the
   next item is a leaf; the error is returned with the target / outboard as they are then *)
Theorem C10_decode_target_fault : forall (HO : hops) j kind enc q target ob,
  decode_ranges_f HO (mkSF (Some j) None kind) enc q target ob = decode_ranges HO enc q target ob \/
  exists m st tg ob' ns off d st',
    steps m (decode_step_f HO no_faults) (dec_new HO (ob_root ob) (ob_tree ob) enc q, target, ob, 0, 0)
      = inl (st, tg, ob', j, ns) /\ N.of_nat m = j + ns /\
    dec_next HO st = Some (Ok (ILeaf off d), st') /\
    decode_ranges_f HO (mkSF (Some j) None kind) enc q target ob = (Err (DIo kind), tg, ob', st').
Proof. exact decode_target_fault. Qed.
Print Assumptions C10_decode_target_fault.

Theorem C10_decode_save_fault : forall (HO : hops) j kind enc q target ob,
  decode_ranges_f HO (mkSF None (Some j) kind) enc q target ob = decode_ranges HO enc q target ob \/
  exists m st tg ob' nw node l r st',
    steps m (decode_step_f HO no_faults) (dec_new HO (ob_root ob) (ob_tree ob) enc q, target, ob, 0, 0)
      = inl (st, tg, ob', nw, j) /\ N.of_nat m = nw + j /\
    dec_next HO st = Some (Ok (IParent node l r), st') /\
    decode_ranges_f HO (mkSF None (Some j) kind) enc q target ob = (Err (DIo kind), tg, ob', st').
Proof. exact decode_save_fault. Qed.
Print Assumptions C10_decode_save_fault.

Theorem C10_decode_target_fault_fsm : forall (HO : hops) j kind enc q target ob,
  decode_ranges_fsm_f HO (mkSF (Some j) None kind) enc q target ob = decode_ranges_fsm HO enc q target ob \/
  exists m st tg ob' ns off d st',
    steps m (decode_step_fsm_f HO no_faults) (rd_new HO (ob_root ob) q (ob_tree ob) enc, target, ob, 0, 0)
      = inl (st, tg, ob', j, ns) /\ N.of_nat m = j + ns /\
    rd_next HO st = RMore st' (Ok (ILeaf off d)) /\
    decode_ranges_fsm_f HO (mkSF (Some j) None kind) enc q target ob = (Err (DIo kind), tg, ob', st').
Proof. exact decode_fsm_target_fault. Qed.
Print Assumptions C10_decode_target_fault_fsm.

Theorem C10_decode_save_fault_fsm : forall (HO : hops) j kind enc q target ob,
  decode_ranges_fsm_f HO (mkSF None (Some j) kind) enc q target ob = decode_ranges_fsm HO enc q target ob \/
  exists m st tg ob' nw node l r st',
    steps m (decode_step_fsm_f HO no_faults) (rd_new HO (ob_root ob) q (ob_tree ob) enc, target, ob, 0, 0)
      = inl (st, tg, ob', nw, j) /\ N.of_nat m = nw + j /\
    rd_next HO st = RMore st' (Ok (IParent node l r)) /\
    decode_ranges_fsm_f HO (mkSF None (Some j) kind) enc q target ob = (Err (DIo kind), tg, ob', st').
Proof. exact decode_fsm_save_fault. Qed.
Print Assumptions C10_decode_save_fault_fsm.

(* a failing k-th read call: std read_exact returns that error and makes no further call, unless it is done
   (or has hit the end of the stream) within the first k calls; Interrupted is excluded: std retries it *)
Theorem C10_stream_read_fault : forall (HO : hops) (r : reader HO) len k kind,
  rd_fail HO r = Some (k, kind) -> kind <> KInterrupted -> rd_calls HO r <= k ->
  exists x r', read_exact_sync HO r len = (x, r') /\
    ((x = Err kind /\ rd_calls HO r' = k + 1) \/
     (rd_calls HO r' <= k /\
      ((len <= blen HO (rd_rest HO r) /\ x = Ok (firstn (N.to_nat len) (rd_rest HO r)) /\
        rd_rest HO r' = skipn (N.to_nat len) (rd_rest HO r)) \/
       (blen HO (rd_rest HO r) < len /\ x = Err KUnexpectedEof)))).
Proof. exact read_exact_sync_fault. Qed.
Print Assumptions C10_stream_read_fault.

(* the same for iroh-io's read_bytes_exact, and for tokio's read_exact on schedules without Interrupted *)
Theorem C10_stream_read_fault_tokio_bytes : forall (HO : hops) (r : reader HO) len k kind,
  rd_fail HO r = Some (k, kind) -> kind <> KInterrupted -> rd_calls HO r <= k ->
  exists x r', tokio_read_bytes_exact HO r len = (x, r') /\
    ((x = Err kind /\ rd_calls HO r' = k + 1) \/
     (rd_calls HO r' <= k /\
      ((len <= blen HO (rd_rest HO r) /\ x = Ok (firstn (N.to_nat len) (rd_rest HO r)) /\
        rd_rest HO r' = skipn (N.to_nat len) (rd_rest HO r)) \/
       (blen HO (rd_rest HO r) < len /\ x = Err KUnexpectedEof)))).
Proof. exact tokio_read_bytes_exact_fault. Qed.
Print Assumptions C10_stream_read_fault_tokio_bytes.

Theorem C10_stream_read_fault_tokio : forall (HO : hops) (r : reader HO) len k kind,
  rd_fail HO r = Some (k, kind) -> kind <> KInterrupted -> rd_calls HO r <= k ->
  (forall e, In e (rd_sched HO r) -> e <> EIntr) ->
  exists x r', tokio_read_n HO r len = (x, r') /\
    ((x = Err kind /\ rd_calls HO r' = k + 1) \/
     (rd_calls HO r' <= k /\
      ((len <= blen HO (rd_rest HO r) /\ x = Ok (firstn (N.to_nat len) (rd_rest HO r)) /\
        rd_rest HO r' = skipn (N.to_nat len) (rd_rest HO r)) \/
       (blen HO (rd_rest HO r) < len /\ x = Err KUnexpectedEof)))).
Proof. exact tokio_read_n_fault. Qed.
Print Assumptions C10_stream_read_fault_tokio.

Theorem C10_stream_read_fault_now : forall (HO : hops) (r : reader HO) len k kind,
  rd_fail HO r = Some (k, kind) -> kind <> KInterrupted -> rd_calls HO r = k -> 0 < len ->
  exists r', read_exact_sync HO r len = (Err kind, r') /\ rd_calls HO r' = k + 1 /\ rd_rest HO r' = rd_rest HO r.
Proof. exact read_exact_sync_fault_now. Qed.
Print Assumptions C10_stream_read_fault_now.

Theorem C10_stream_read_interrupted_fault_is_retried : forall (HO : hops),
  read_exact_sync HO (mkRd HO [bzero HO] [EPending] 0 (Some (0, KInterrupted))) 1
  = (Ok [bzero HO], mkRd HO [] [] 2 (Some (0, KInterrupted))).
Proof. exact read_exact_sync_interrupted_fault_is_retried. Qed.
Print Assumptions C10_stream_read_interrupted_fault_is_retried.

(* the sync decoder step whose stream read is the failing call returns what the OStreamIn entry of dec_sites
   says (maybe_parent_not_found / maybe_leaf_not_found of the kind), after exactly one more read call *)
Theorem C10_decoder_read_fault : forall (HO : hops) (st : dstate_r HO) k kind c inner',
  response_next (dr_inner HO st) = Some (c, inner') ->
  rd_fail HO (dr_rd HO st) = Some (k, kind) -> kind <> KInterrupted -> rd_calls HO (dr_rd HO st) = k ->
  0 < chunk_size c ->
  exists e rd', dec_next_r HO st = Some (Err e, mkDR HO inner' (dr_stack HO st) rd') /\
    rd_calls HO rd' = k + 1 /\ rd_rest HO rd' = rd_rest HO (dr_rd HO st) /\
    e = match c with CParent node _ _ _ _ => maybe_parent_not_found kind node
                   | CLeaf start _ _ _ => maybe_leaf_not_found kind start end.
Proof. exact dec_next_r_read_fault. Qed.
Print Assumptions C10_decoder_read_fault.
