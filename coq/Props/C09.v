(* C09 statements; proofs in Proofs/Dec*.v. *)
From BaoV Require Import Model.Fsm Spec.EncSpec Spec.HashAssm Spec.PTree.
From Coq Require Import Arith.
From BaoV Require Import Proofs.DecLoop Proofs.DecHash Proofs.DecForest Proofs.DecConst Proofs.DecRanges Proofs.DecTheorems.

(* the error a plan item gives: chunk_err true = "not found", chunk_err false = "hash mismatch",
   naming the node of a parent item and the start chunk of a leaf item *)
Theorem C09_err_names : forall node start size ir lf rt rs,
  chunk_err true (CParent node ir lf rt rs) = DParentNotFound node /\
  chunk_err false (CParent node ir lf rt rs) = DParentHashMismatch node /\
  chunk_err true (CLeaf start size ir rs) = DLeafNotFound start /\
  chunk_err false (CLeaf start size ir rs) = DLeafHashMismatch start.
Proof. exact chunk_err_names. Qed.
Print Assumptions C09_err_names.

(* the plan item and the honest item at the index of byte d belong together *)
Theorem C09_item_named : forall HO (T : ptree HO) d,
  (d < length (flat_items HO (items_of HO T)))%nat ->
  exists c it, nth_error (plan_of HO T) (item_at HO (items_of HO T) d) = Some c /\
               nth_error (items_of HO T) (item_at HO (items_of HO T) d) = Some it /\
               names_item HO c it.
Proof. exact item_named. Qed.
Print Assumptions C09_item_named.

(* item_at its d is the index k of the item containing byte d *)
Theorem C09_item_at : forall HO (its : list (item HO)) d,
  (d < length (flat_items HO its))%nat ->
  (length (flat_items HO (firstn (item_at HO its d) its)) <= d)%nat /\
  (d < length (flat_items HO (firstn (S (item_at HO its d)) its)))%nat /\
  (item_at HO its d < length its)%nat.
Proof. exact item_at_bounds. Qed.
Print Assumptions C09_item_at.

(* Part 2(b): the stream agrees with the honest encoding on exactly d bytes (d < its length); item k
   contains byte d.  Both decoders yield exactly the first k items and fail naming item k: NotFound
   if the stream ends before item k does, HashMismatch otherwise. *)
Theorem C09_exact : forall HO, hash_ok HO ->
  forall (T : ptree HO) (stream : bytes HO) d c, consistent HO T -> leaves_ok HO T ->
  let honest := flat_items HO (items_of HO T) in
  let k := item_at HO (items_of HO T) d in
  lcp_len HO stream honest d -> (d < length honest)%nat ->
  nth_error (plan_of HO T) k = Some c ->
  let short := (length stream <? length (flat_items HO (firstn (S k) (items_of HO T))))%nat in
  let r1 := dec_items_sync HO (plan_of HO T) [cv_of HO T] stream in
  let r2 := dec_items_fsm HO (plan_of HO T) [cv_of HO T] stream in
  (r_items HO r1 = firstn k (items_of HO T) /\ r_outcome HO r1 = Failed (chunk_err short c)) /\
  (r_items HO r2 = firstn k (items_of HO T) /\ r_outcome HO r2 = Failed (chunk_err short c)).
Proof. exact both_exact. Qed.
Print Assumptions C09_exact.

Theorem C09_truncation : forall HO, hash_ok HO ->
  forall (T : ptree HO) p c, consistent HO T -> leaves_ok HO T ->
  let honest := flat_items HO (items_of HO T) in
  let k := item_at HO (items_of HO T) p in
  (p < length honest)%nat -> nth_error (plan_of HO T) k = Some c ->
  let stream := firstn p honest in
  let r1 := dec_items_sync HO (plan_of HO T) [cv_of HO T] stream in
  let r2 := dec_items_fsm HO (plan_of HO T) [cv_of HO T] stream in
  (r_items HO r1 = firstn k (items_of HO T) /\ r_outcome HO r1 = Failed (chunk_err true c)) /\
  (r_items HO r2 = firstn k (items_of HO T) /\ r_outcome HO r2 = Failed (chunk_err true c)).
Proof. exact both_truncation. Qed.
Print Assumptions C09_truncation.

Theorem C09_alteration : forall HO, hash_ok HO ->
  forall (T : ptree HO) p b b' c, consistent HO T -> leaves_ok HO T ->
  let honest := flat_items HO (items_of HO T) in
  let k := item_at HO (items_of HO T) p in
  nth_error honest p = Some b -> b' <> b -> nth_error (plan_of HO T) k = Some c ->
  let stream := firstn p honest ++ b' :: skipn (S p) honest in
  let r1 := dec_items_sync HO (plan_of HO T) [cv_of HO T] stream in
  let r2 := dec_items_fsm HO (plan_of HO T) [cv_of HO T] stream in
  (r_items HO r1 = firstn k (items_of HO T) /\ r_outcome HO r1 = Failed (chunk_err false c)) /\
  (r_items HO r2 = firstn k (items_of HO T) /\ r_outcome HO r2 = Failed (chunk_err false c)).
Proof. exact both_alteration. Qed.
Print Assumptions C09_alteration.

Theorem C09_io_kind : forall n c k,
  dec_err_kind (DParentNotFound n) = KUnexpectedEof /\
  dec_err_kind (DLeafNotFound c) = KUnexpectedEof /\
  dec_err_kind (DParentHashMismatch n) = KInvalidData /\
  dec_err_kind (DLeafHashMismatch c) = KInvalidData /\
  dec_err_kind (DIo k) = k.
Proof. exact dec_err_kind_cases. Qed.
Print Assumptions C09_io_kind.

Theorem C09_chunk_err_kind : forall short c,
  dec_err_kind (chunk_err short c) = if short then KUnexpectedEof else KInvalidData.
Proof. exact chunk_err_kind. Qed.
Print Assumptions C09_chunk_err_kind.

(* ======== End-to-end composition (proofs in Proofs/E2EDecode.v) ========
   The statements above instantiated at the honest encoding of a blob, for the state machines
   dec_run / rd_run set up for (root hash of the blob, tree of the blob, q). *)
From BaoV Require Import Spec.RangeSpec Proofs.E2EGlue Proofs.E2EDecode.

(* item_err notfound it: the error naming the honest item it: a parent by its node id, a leaf by its
   start chunk (the leaf's byte offset is start_chunk * 1024, Bridge_leaf_items) *)
Theorem C09_e2e_err_names : forall HO node (l r : hash HO) off (d : bytes HO),
  item_err HO true (IParent node l r) = DParentNotFound node /\
  item_err HO false (IParent node l r) = DParentHashMismatch node /\
  item_err HO true (ILeaf off d) = DLeafNotFound (off / 1024) /\
  item_err HO false (ILeaf off d) = DLeafHashMismatch (off / 1024).
Proof. exact item_err_names. Qed.
Print Assumptions C09_e2e_err_names.

(* every byte position p of the honest encoding lies in exactly one item, the k-th *)
Theorem C09_e2e_item_index : forall HO (data : bytes HO) (bs : N) (q : ranges) p,
  (p < length (flat HO (honest HO data bs q)))%nat ->
  exists k, (length (flat HO (firstn k (honest HO data bs q))) <= p
             < length (flat HO (firstn (S k) (honest HO data bs q))))%nat.
Proof. exact e2e_item_index_exists. Qed.
Print Assumptions C09_e2e_item_index.

(* truncation: the stream is the first p bytes of the honest encoding, byte p lies in item k.  Both
   decoders yield exactly the items lying completely before p (the first k) and then fail with the
   NotFound error naming item k *)
Theorem C09_e2e_truncation : forall HO, hash_ok HO ->
  forall (data : bytes HO) (bs : N) (q : ranges),
  (blen HO data <= 2 ^ 63)%N -> (bs <= 10)%N -> wf_ranges q = true -> q <> [] ->
  forall p k : nat,
  (length (flat HO (firstn k (honest HO data bs q))) <= p)%nat ->
  (p < length (flat HO (firstn (S k) (honest HO data bs q))))%nat ->
  let stream := firstn p (flat HO (honest HO data bs q)) in
  exists it, nth_error (honest HO data bs q) k = Some it /\
  (forall ys o st,
     dec_run HO (dec_new HO (root_hash HO data) (mkTree (blen HO data) bs) stream q) = (ys, o, st) ->
     ys = firstn k (honest HO data bs q) /\ o = Failed (item_err HO true it)) /\
  (forall ys o st,
     rd_run HO (rd_new HO (root_hash HO data) q (mkTree (blen HO data) bs) stream) = (ys, o, st) ->
     ys = firstn k (honest HO data bs q) /\ o = Failed (item_err HO true it)).
Proof. exact e2e_truncation. Qed.
Print Assumptions C09_e2e_truncation.

(* alteration: byte p of the honest encoding (b) is replaced by b' <> b.  Both decoders yield exactly the
   items lying completely before p and then fail with the HashMismatch error naming item k *)
Theorem C09_e2e_alteration : forall HO, hash_ok HO ->
  forall (data : bytes HO) (bs : N) (q : ranges),
  (blen HO data <= 2 ^ 63)%N -> (bs <= 10)%N -> wf_ranges q = true -> q <> [] ->
  forall (p k : nat) (b b' : B HO),
  (length (flat HO (firstn k (honest HO data bs q))) <= p)%nat ->
  (p < length (flat HO (firstn (S k) (honest HO data bs q))))%nat ->
  nth_error (flat HO (honest HO data bs q)) p = Some b -> b' <> b ->
  let stream := firstn p (flat HO (honest HO data bs q)) ++ b' :: skipn (S p) (flat HO (honest HO data bs q)) in
  exists it, nth_error (honest HO data bs q) k = Some it /\
  (forall ys o st,
     dec_run HO (dec_new HO (root_hash HO data) (mkTree (blen HO data) bs) stream q) = (ys, o, st) ->
     ys = firstn k (honest HO data bs q) /\ o = Failed (item_err HO false it)) /\
  (forall ys o st,
     rd_run HO (rd_new HO (root_hash HO data) q (mkTree (blen HO data) bs) stream) = (ys, o, st) ->
     ys = firstn k (honest HO data bs q) /\ o = Failed (item_err HO false it)).
Proof. exact e2e_alteration. Qed.
Print Assumptions C09_e2e_alteration.
