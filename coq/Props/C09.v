(* C09 statements; proofs in Proofs/Dec*.v. *)
From BaoV Require Import Model.Fsm Spec.EncSpec Spec.HashAssm Spec.PTree.
From Coq Require Import Arith.
From BaoV Require Import Proofs.DecLoop Proofs.DecHash Proofs.DecForest Proofs.DecConst Proofs.DecRanges Proofs.DecTheorems.

(* the error a plan item gives: chunk_err true = "not found", chunk_err false = "hash mismatch",
   naming the node of a parent item and the start chunk of a leaf item *)
Theorem C09_err_names : forall node start size ir lf rt rs,
  chunk_err true (CParent node ir lf rt rs) = DParentNotFound node /\
  chunk_err false (CParent node ir lf rt rs) = DParentHashMismatch node /\
  chunk_err true (CLeaf start size ir rs) = DLeafNotFound start /\
  chunk_err false (CLeaf start size ir rs) = DLeafHashMismatch start.
Proof. exact chunk_err_names. Qed.
Print Assumptions C09_err_names.

(* the plan item and the honest item at the index of byte d belong together *)
Theorem C09_item_named : forall HO (T : ptree HO) d,
  (d < length (flat_items HO (items_of HO T)))%nat ->
  exists c it, nth_error (plan_of HO T) (item_at HO (items_of HO T) d) = Some c /\
               nth_error (items_of HO T) (item_at HO (items_of HO T) d) = Some it /\
               names_item HO c it.
Proof. exact item_named. Qed.
Print Assumptions C09_item_named.

(* item_at its d is the index k of the item containing byte d *)
Theorem C09_item_at : forall HO (its : list (item HO)) d,
  (d < length (flat_items HO its))%nat ->
  (length (flat_items HO (firstn (item_at HO its d) its)) <= d)%nat /\
  (d < length (flat_items HO (firstn (S (item_at HO its d)) its)))%nat /\
  (item_at HO its d < length its)%nat.
Proof. exact item_at_bounds. Qed.
Print Assumptions C09_item_at.

(* Part 2(b): the stream agrees with the honest encoding on exactly d bytes (d < its length); item k
   contains byte d.  Both decoders yield exactly the first k items and fail naming item k: NotFound
   if the stream ends before item k does, HashMismatch otherwise. *)
Theorem C09_exact : forall HO, hash_ok HO ->
  forall (T : ptree HO) (stream : bytes HO) d c, consistent HO T -> leaves_ok HO T ->
  let honest := flat_items HO (items_of HO T) in
  let k := item_at HO (items_of HO T) d in
  lcp_len HO stream honest d -> (d < length honest)%nat ->
  nth_error (plan_of HO T) k = Some c ->
  let short := (length stream <? length (flat_items HO (firstn (S k) (items_of HO T))))%nat in
  let r1 := dec_items_sync HO (plan_of HO T) [cv_of HO T] stream in
  let r2 := dec_items_fsm HO (plan_of HO T) [cv_of HO T] stream in
  (r_items HO r1 = firstn k (items_of HO T) /\ r_outcome HO r1 = Failed (chunk_err short c)) /\
  (r_items HO r2 = firstn k (items_of HO T) /\ r_outcome HO r2 = Failed (chunk_err short c)).
Proof. exact both_exact. Qed.
Print Assumptions C09_exact.

Theorem C09_truncation : forall HO, hash_ok HO ->
  forall (T : ptree HO) p c, consistent HO T -> leaves_ok HO T ->
  let honest := flat_items HO (items_of HO T) in
  let k := item_at HO (items_of HO T) p in
  (p < length honest)%nat -> nth_error (plan_of HO T) k = Some c ->
  let stream := firstn p honest in
  let r1 := dec_items_sync HO (plan_of HO T) [cv_of HO T] stream in
  let r2 := dec_items_fsm HO (plan_of HO T) [cv_of HO T] stream in
  (r_items HO r1 = firstn k (items_of HO T) /\ r_outcome HO r1 = Failed (chunk_err true c)) /\
  (r_items HO r2 = firstn k (items_of HO T) /\ r_outcome HO r2 = Failed (chunk_err true c)).
Proof. exact both_truncation. Qed.
Print Assumptions C09_truncation.

Theorem C09_alteration : forall HO, hash_ok HO ->
  forall (T : ptree HO) p b b' c, consistent HO T -> leaves_ok HO T ->
  let honest := flat_items HO (items_of HO T) in
  let k := item_at HO (items_of HO T) p in
  nth_error honest p = Some b -> b' <> b -> nth_error (plan_of HO T) k = Some c ->
  let stream := firstn p honest ++ b' :: skipn (S p) honest in
  let r1 := dec_items_sync HO (plan_of HO T) [cv_of HO T] stream in
  let r2 := dec_items_fsm HO (plan_of HO T) [cv_of HO T] stream in
  (r_items HO r1 = firstn k (items_of HO T) /\ r_outcome HO r1 = Failed (chunk_err false c)) /\
  (r_items HO r2 = firstn k (items_of HO T) /\ r_outcome HO r2 = Failed (chunk_err false c)).
Proof. exact both_alteration. Qed.
Print Assumptions C09_alteration.

Theorem C09_io_kind : forall n c k,
  dec_err_kind (DParentNotFound n) = KUnexpectedEof /\
  dec_err_kind (DLeafNotFound c) = KUnexpectedEof /\
  dec_err_kind (DParentHashMismatch n) = KInvalidData /\
  dec_err_kind (DLeafHashMismatch c) = KInvalidData /\
  dec_err_kind (DIo k) = k.
Proof. exact dec_err_kind_cases. Qed.
Print Assumptions C09_io_kind.

Theorem C09_chunk_err_kind : forall short c,
  dec_err_kind (chunk_err short c) = if short then KUnexpectedEof else KInvalidData.
Proof. exact chunk_err_kind. Qed.
Print Assumptions C09_chunk_err_kind.
