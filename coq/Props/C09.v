(* C09 statements; proofs in Proofs/Dec*.v. *)
From BaoV Require Import Model.Fsm Spec.EncSpec Spec.HashAssm Spec.PTree.
From Coq Require Import Arith.
From BaoV Require Import Proofs.DecLoop Proofs.DecHash Proofs.DecForest Proofs.DecConst Proofs.DecRanges Proofs.DecTheorems.

(* the error a plan item gives: chunk_err true = "not found", chunk_err false = "hash mismatch",
   naming the node of a parent item and the start chunk of a leaf item *)
Theorem C09_err_names : forall node start size ir lf rt rs,
  chunk_err true (CParent node ir lf rt rs) = DParentNotFound node /\
  chunk_err false (CParent node ir lf rt rs) = DParentHashMismatch node /\
  chunk_err true (CLeaf start size ir rs) = DLeafNotFound start /\
  chunk_err false (CLeaf start size ir rs) = DLeafHashMismatch start.
Proof. exact chunk_err_names. Qed.
Print Assumptions C09_err_names.

(* the plan item and the honest item at the index of byte d belong together *)
Theorem C09_item_named : forall HO (T : ptree HO) d,
  (d < length (flat_items HO (items_of HO T)))%nat ->
  exists c it, nth_error (plan_of HO T) (item_at HO (items_of HO T) d) = Some c /\
               nth_error (items_of HO T) (item_at HO (items_of HO T) d) = Some it /\
               names_item HO c it.
Proof. exact item_named. Qed.
Print Assumptions C09_item_named.

(* item_at its d is the index k of the item containing byte d *)
Theorem C09_item_at : forall HO (its : list (item HO)) d,
  (d < length (flat_items HO its))%nat ->
  (length (flat_items HO (firstn (item_at HO its d) its)) <= d)%nat /\
  (d < length (flat_items HO (firstn (S (item_at HO its d)) its)))%nat /\
  (item_at HO its d < length its)%nat.
Proof. exact item_at_bounds. Qed.
Print Assumptions C09_item_at.

(* Part 2(b): the stream agrees with the honest encoding on exactly d bytes (d < its length); item k
   contains byte d.  Both decoders yield exactly the first k items and fail naming item k: NotFound
   if the stream ends before item k does, HashMismatch otherwise. *)
Theorem C09_exact : forall HO, hash_ok HO ->
  forall (T : ptree HO) (stream : bytes HO) d c, consistent HO T -> leaves_ok HO T ->
  let honest := flat_items HO (items_of HO T) in
  let k := item_at HO (items_of HO T) d in
  lcp_len HO stream honest d -> (d < length honest)%nat ->
  nth_error (plan_of HO T) k = Some c ->
  let short := (length stream <? length (flat_items HO (firstn (S k) (items_of HO T))))%nat in
  let r1 := dec_items_sync HO (plan_of HO T) [cv_of HO T] stream in
  let r2 := dec_items_fsm HO (plan_of HO T) [cv_of HO T] stream in
  (r_items HO r1 = firstn k (items_of HO T) /\ r_outcome HO r1 = Failed (chunk_err short c)) /\
  (r_items HO r2 = firstn k (items_of HO T) /\ r_outcome HO r2 = Failed (chunk_err short c)).
Proof. exact both_exact. Qed.
Print Assumptions C09_exact.

Theorem C09_truncation : forall HO, hash_ok HO ->
  forall (T : ptree HO) p c, consistent HO T -> leaves_ok HO T ->
  let honest := flat_items HO (items_of HO T) in
  let k := item_at HO (items_of HO T) p in
  (p < length honest)%nat -> nth_error (plan_of HO T) k = Some c ->
  let stream := firstn p honest in
  let r1 := dec_items_sync HO (plan_of HO T) [cv_of HO T] stream in
  let r2 := dec_items_fsm HO (plan_of HO T) [cv_of HO T] stream in
  (r_items HO r1 = firstn k (items_of HO T) /\ r_outcome HO r1 = Failed (chunk_err true c)) /\
  (r_items HO r2 = firstn k (items_of HO T) /\ r_outcome HO r2 = Failed (chunk_err true c)).
Proof. exact both_truncation. Qed.
Print Assumptions C09_truncation.

Theorem C09_alteration : forall HO, hash_ok HO ->
  forall (T : ptree HO) p b b' c, consistent HO T -> leaves_ok HO T ->
  let honest := flat_items HO (items_of HO T) in
  let k := item_at HO (items_of HO T) p in
  nth_error honest p = Some b -> b' <> b -> nth_error (plan_of HO T) k = Some c ->
  let stream := firstn p honest ++ b' :: skipn (S p) honest in
  let r1 := dec_items_sync HO (plan_of HO T) [cv_of HO T] stream in
  let r2 := dec_items_fsm HO (plan_of HO T) [cv_of HO T] stream in
  (r_items HO r1 = firstn k (items_of HO T) /\ r_outcome HO r1 = Failed (chunk_err false c)) /\
  (r_items HO r2 = firstn k (items_of HO T) /\ r_outcome HO r2 = Failed (chunk_err false c)).
Proof. exact both_alteration. Qed.
Print Assumptions C09_alteration.

Theorem C09_io_kind : forall n c k,
  dec_err_kind (DParentNotFound n) = KUnexpectedEof /\
  dec_err_kind (DLeafNotFound c) = KUnexpectedEof /\
  dec_err_kind (DParentHashMismatch n) = KInvalidData /\
  dec_err_kind (DLeafHashMismatch c) = KInvalidData /\
  dec_err_kind (DIo k) = k.
Proof. exact dec_err_kind_cases. Qed.
Print Assumptions C09_io_kind.

Theorem C09_chunk_err_kind : forall short c,
  dec_err_kind (chunk_err short c) = if short then KUnexpectedEof else KInvalidData.
Proof. exact chunk_err_kind. Qed.
Print Assumptions C09_chunk_err_kind.

(* ======== End-to-end composition (proofs in Proofs/E2EDecode.v) ========
   The statements above instantiated at the honest encoding of a blob, for the state machines
   dec_run / rd_run set up for (root hash of the blob, tree of the blob, q). *)
From BaoV Require Import Spec.RangeSpec Proofs.E2EGlue Proofs.E2EDecode.

(* item_err notfound it: the error naming the honest item it: a parent by its node id, a leaf by its
   start chunk (the leaf's byte offset is start_chunk * 1024, Bridge_leaf_items) *)
Theorem C09_e2e_err_names : forall HO node (l r : hash HO) off (d : bytes HO),
  item_err HO true (IParent node l r) = DParentNotFound node /\
  item_err HO false (IParent node l r) = DParentHashMismatch node /\
  item_err HO true (ILeaf off d) = DLeafNotFound (off / 1024) /\
  item_err HO false (ILeaf off d) = DLeafHashMismatch (off / 1024).
Proof. exact item_err_names. Qed.
Print Assumptions C09_e2e_err_names.

(* every byte position p of the honest encoding lies in exactly one item, the k-th *)
Theorem C09_e2e_item_index : forall HO (data : bytes HO) (bs : N) (q : ranges) p,
  (p < length (flat HO (honest HO data bs q)))%nat ->
  exists k, (length (flat HO (firstn k (honest HO data bs q))) <= p
             < length (flat HO (firstn (S k) (honest HO data bs q))))%nat.
Proof. exact e2e_item_index_exists. Qed.
Print Assumptions C09_e2e_item_index.

(* truncation: the stream is the first p bytes of the honest encoding, byte p lies in item k.  Both
   decoders yield exactly the items lying completely before p (the first k) and then fail with the
   NotFound error naming item k *)
Theorem C09_e2e_truncation : forall HO, hash_ok HO ->
  forall (data : bytes HO) (bs : N) (q : ranges),
  (blen HO data <= 2 ^ 63)%N -> (bs <= 10)%N -> wf_ranges q = true -> q <> [] ->
  forall p k : nat,
  (length (flat HO (firstn k (honest HO data bs q))) <= p)%nat ->
  (p < length (flat HO (firstn (S k) (honest HO data bs q))))%nat ->
  let stream := firstn p (flat HO (honest HO data bs q)) in
  exists it, nth_error (honest HO data bs q) k = Some it /\
  (forall ys o st,
     dec_run HO (dec_new HO (root_hash HO data) (mkTree (blen HO data) bs) stream q) = (ys, o, st) ->
     ys = firstn k (honest HO data bs q) /\ o = Failed (item_err HO true it)) /\
  (forall ys o st,
     rd_run HO (rd_new HO (root_hash HO data) q (mkTree (blen HO data) bs) stream) = (ys, o, st) ->
     ys = firstn k (honest HO data bs q) /\ o = Failed (item_err HO true it)).
Proof. exact e2e_truncation. Qed.
Print Assumptions C09_e2e_truncation.

(* alteration: byte p of the honest encoding (b) is replaced by b' <> b.  Both decoders yield exactly the
   items lying completely before p and then fail with the HashMismatch error naming item k *)
Theorem C09_e2e_alteration : forall HO, hash_ok HO ->
  forall (data : bytes HO) (bs : N) (q : ranges),
  (blen HO data <= 2 ^ 63)%N -> (bs <= 10)%N -> wf_ranges q = true -> q <> [] ->
  forall (p k : nat) (b b' : B HO),
  (length (flat HO (firstn k (honest HO data bs q))) <= p)%nat ->
  (p < length (flat HO (firstn (S k) (honest HO data bs q))))%nat ->
  nth_error (flat HO (honest HO data bs q)) p = Some b -> b' <> b ->
  let stream := firstn p (flat HO (honest HO data bs q)) ++ b' :: skipn (S p) (flat HO (honest HO data bs q)) in
  exists it, nth_error (honest HO data bs q) k = Some it /\
  (forall ys o st,
     dec_run HO (dec_new HO (root_hash HO data) (mkTree (blen HO data) bs) stream q) = (ys, o, st) ->
     ys = firstn k (honest HO data bs q) /\ o = Failed (item_err HO false it)) /\
  (forall ys o st,
     rd_run HO (rd_new HO (root_hash HO data) q (mkTree (blen HO data) bs) stream) = (ys, o, st) ->
     ys = firstn k (honest HO data bs q) /\ o = Failed (item_err HO false it)).
Proof. exact e2e_alteration. Qed.
Print Assumptions C09_e2e_alteration.

(* ======== Gap audit: the state after each kind of error; exact location for the decode_ranges drivers with
   the io kind of the reported error; the fsm decoder never panics under any polls ========
   Proofs in Proofs/GapPolls.v, GapDrivers.v, GapFsmTotal.v, GapStatements.v, GapNonvac.v. *)
From BaoV Require Import Spec.PlanSpec Spec.PlanWf Proofs.GapLenient.
From BaoV Require Import Proofs.GapPolls Proofs.GapDrivers Proofs.GapFsmTotal Proofs.GapStatements Proofs.GapNonvac.

(* one call of next that returns an error, sync iterator: a not-found error drains the reader and keeps the
   pending stack (the plan item is consumed all the same); a hash mismatch pops the expected value, consumes
   the bytes of the item and pushes NOTHING - after a parent hash mismatch the stack no longer matches the plan
   (C01_sync_repoll_panics_refuted, C01_sync_repoll_foreign_parent_refuted) *)
Theorem C09_sync_after_error : forall HO (st st' : dstate HO) e, dec_next HO st = Some (Err e, st') ->
  match e with
  | DParentNotFound _ | DLeafNotFound _ => d_stack HO st' = d_stack HO st /\ d_enc HO st' = []
  | DParentHashMismatch _ | DLeafHashMismatch _ =>
      exists h d, d_stack HO st = h :: d_stack HO st' /\ d_enc HO st = d ++ d_enc HO st'
  | DIo _ => False
  end.
Proof. exact sync_after_error. Qed.
Print Assumptions C09_sync_after_error.

(* fsm state machine: a parent not-found error consumes nothing; a parent hash mismatch pops the expected value
   and pushes the children of the REJECTED pair (C01_fsm_repoll_foreign_leaf_refuted) *)
Theorem C09_fsm_after_error : forall HO (st st' : rstate HO) e, rd_next HO st = RMore st' (Err e) ->
  match e with
  | DParentNotFound _ =>
      Fsm.r_stack HO st' = Fsm.r_stack HO st /\ Fsm.r_enc HO st' = Fsm.r_enc HO st /\ (blen HO (Fsm.r_enc HO st) < 64)%N
  | DLeafNotFound _ => Fsm.r_stack HO st' = Fsm.r_stack HO st /\ Fsm.r_enc HO st' = []
  | DParentHashMismatch _ =>
      exists h stk0 l r, Fsm.r_stack HO st = h :: stk0 /\ Fsm.r_enc HO st = (l ++ r) ++ Fsm.r_enc HO st' /\
        length l = 32%nat /\ length r = 32%nat /\
        (Fsm.r_stack HO st' = l :: r :: stk0 \/ Fsm.r_stack HO st' = l :: stk0 \/
         Fsm.r_stack HO st' = r :: stk0 \/ Fsm.r_stack HO st' = stk0)
  | DLeafHashMismatch _ =>
      exists h d, Fsm.r_stack HO st = h :: Fsm.r_stack HO st' /\ Fsm.r_enc HO st = d ++ Fsm.r_enc HO st'
  | DIo _ => False
  end.
Proof. exact fsm_after_error. Qed.
Print Assumptions C09_fsm_after_error.

(* no stream makes the fsm decoder panic, not even when it is polled again after errors: for EVERY expected root
   value, stream, geometry and well-formed query, no call of next in any sequence of calls returns Panic.
   No assumption on the hash functions.  (For the sync iterator this fails: C01_sync_repoll_panics_refuted.) *)
Theorem C09_fsm_never_panics : forall HO (root : hash HO) (size bs : N) (q : ranges) (stream : bytes HO) tr st,
  (size <= 2 ^ 63)%N -> (bs <= 10)%N -> wf_ranges q = true ->
  rd_polls HO (rd_new HO root q (mkTree size bs) stream) tr st -> ~ In Panic tr.
Proof. exact fsm_never_panics. Qed.
Print Assumptions C09_fsm_never_panics.

(* the plan decoder of the fsm over any plan with a sound stack discipline (C15_pre_stack) and tail_ok (C01_tail_ok_def) *)
Theorem C09_fsm_plan_never_panics : forall HO plan (stk : list (hash HO)) (enc : bytes HO),
  pre_stack_ok plan (N.of_nat (length stk)) = true -> tail_ok plan ->
  ~ In Panic (p_res HO (poll_list HO (step_fsm HO) plan stk enc)).
Proof. exact fsm_plan_never_panics. Qed.
Print Assumptions C09_fsm_plan_never_panics.

(* exact location for the two decode_ranges drivers.  The stream is the honest encoding cut at byte p, which lies
   in item k: both drivers apply exactly the items lying completely before the cut (leaves written, parents
   saved: apply_items) and return the not-found error naming item k, whose io kind is UnexpectedEof; if a save
   fails first, its io error (or panic) is returned instead (ranges_result, C01_ranges_result) *)
Theorem C09_e2e_drivers_truncation : forall HO, hash_ok HO ->
  forall (data : bytes HO) (bs : N) (q : ranges),
  (blen HO data <= 2 ^ 63)%N -> (bs <= 10)%N -> wf_ranges q = true ->
  forall p k : nat,
  (length (flat HO (firstn k (honest HO data bs q))) <= p)%nat ->
  (p < length (flat HO (firstn (S k) (honest HO data bs q))))%nat ->
  let stream := firstn p (flat HO (honest HO data bs q)) in
  forall (target : bytes HO) (ob : outboard HO),
  ob_root ob = root_hash HO data -> ob_tree ob = mkTree (blen HO data) bs ->
  exists it, nth_error (honest HO data bs q) k = Some it /\
    dec_err_kind (item_err HO true it) = KUnexpectedEof /\
    let a := apply_items HO (firstn k (honest HO data bs q)) target ob in
    (exists st', decode_ranges HO stream q target ob =
       (ranges_result (a_res HO a) (Failed (item_err HO true it)), a_target HO a, a_ob HO a, st')) /\
    (exists st', decode_ranges_fsm HO stream q target ob =
       (ranges_result (a_res HO a) (Failed (item_err HO true it)), a_target HO a, a_ob HO a, st')) /\
    (a_res HO a = SOk -> ranges_result (a_res HO a) (Failed (item_err HO true it)) = Err (item_err HO true it)).
Proof. exact drivers_truncation. Qed.
Print Assumptions C09_e2e_drivers_truncation.

(* byte p (= b) of the honest encoding replaced by b' <> b: the items before the altered one are applied and the
   hash-mismatch error naming item k is returned; its io kind is InvalidData *)
Theorem C09_e2e_drivers_alteration : forall HO, hash_ok HO ->
  forall (data : bytes HO) (bs : N) (q : ranges),
  (blen HO data <= 2 ^ 63)%N -> (bs <= 10)%N -> wf_ranges q = true ->
  forall (p k : nat) (b b' : B HO),
  (length (flat HO (firstn k (honest HO data bs q))) <= p)%nat ->
  (p < length (flat HO (firstn (S k) (honest HO data bs q))))%nat ->
  nth_error (flat HO (honest HO data bs q)) p = Some b -> b' <> b ->
  let stream := firstn p (flat HO (honest HO data bs q)) ++ b' :: skipn (S p) (flat HO (honest HO data bs q)) in
  forall (target : bytes HO) (ob : outboard HO),
  ob_root ob = root_hash HO data -> ob_tree ob = mkTree (blen HO data) bs ->
  exists it, nth_error (honest HO data bs q) k = Some it /\
    dec_err_kind (item_err HO false it) = KInvalidData /\
    let a := apply_items HO (firstn k (honest HO data bs q)) target ob in
    (exists st', decode_ranges HO stream q target ob =
       (ranges_result (a_res HO a) (Failed (item_err HO false it)), a_target HO a, a_ob HO a, st')) /\
    (exists st', decode_ranges_fsm HO stream q target ob =
       (ranges_result (a_res HO a) (Failed (item_err HO false it)), a_target HO a, a_ob HO a, st')) /\
    (a_res HO a = SOk -> ranges_result (a_res HO a) (Failed (item_err HO false it)) = Err (item_err HO false it)).
Proof. exact drivers_alteration. Qed.
Print Assumptions C09_e2e_drivers_alteration.

(* the io kind of the error naming an honest item *)
Theorem C09_item_err_kind : forall HO (nf : bool) (it : item HO),
  dec_err_kind (item_err HO nf it) = if nf then KUnexpectedEof else KInvalidData.
Proof. exact item_err_kind. Qed.
Print Assumptions C09_item_err_kind.

(* a save into an io-backed or empty outboard never panics, so there the drivers return an error value *)
Theorem C09_io_outboards_never_panic : forall HO (ys : list (item HO)) (target : bytes HO) (ob : outboard HO),
  (ob_k ob = PreIO \/ ob_k ob = PostIO \/ ob_k ob = EmptyOb) -> a_res HO (apply_items HO ys target ob) <> SPanic.
Proof. exact apply_items_io_kind. Qed.
Print Assumptions C09_io_outboards_never_panic.

(* the hypotheses of the two driver theorems hold for a concrete blob, cut / altered inside its first leaf *)
Theorem C09_e2e_drivers_nonvacuous :
  exists HO, hash_ok HO /\
  exists (data : bytes HO) (bs : N) (q : ranges) (ob : outboard HO) (p k : nat) (b b' : B HO),
    (blen HO data <= 2 ^ 63)%N /\ (bs <= 10)%N /\ wf_ranges q = true /\
    (length (flat HO (firstn k (honest HO data bs q))) <= p)%nat /\
    (p < length (flat HO (firstn (S k) (honest HO data bs q))))%nat /\
    nth_error (flat HO (honest HO data bs q)) p = Some b /\ b' <> b /\
    ob_root ob = root_hash HO data /\ ob_tree ob = mkTree (blen HO data) bs.
Proof. exact c09_drivers_nonvacuous. Qed.
Print Assumptions C09_e2e_drivers_nonvacuous.

(* ---- the plan iterator INSIDE the decoders never panics (proofs in Proofs/GapIterTotal.v) ----
   Model/Iter.v records a panic of PreOrderPartialChunkIterRef::next (its two unwrap()s) as pp_next st = Some None;
   response_next, and with it dec_next / rd_next, treat such a state as "iterator exhausted", so the theorems
   "o <> Panicked" above do not see it.  It never happens: in every state the iterator of a decoder reaches,
   pp_next is not Some None, and when next() reports exhaustion the iterator's stack and buffer are empty *)
From BaoV Require Proofs.PlanRun.
From BaoV Require Import Proofs.GapIterTotal.

Theorem C09_iterator_never_panics : forall size bs q, (size <= 2 ^ 63)%N -> (bs <= 10)%N -> wf_ranges q = true ->
  forall plan st, PlanRun.steps response_next (response_new (mkTree size bs) q) plan st ->
  pp_next st <> Some None /\
  (response_next st = None -> pp_stack st = [] /\ pp_buffer st = []).
Proof. exact iter_never_panics. Qed.
Print Assumptions C09_iterator_never_panics.

Theorem C09_decoders_iterator_never_panics : forall HO (root : hash HO) (size bs : N) (q : ranges) (stream : bytes HO),
  (size <= 2 ^ 63)%N -> (bs <= 10)%N -> wf_ranges q = true ->
  (forall tr st, dec_polls HO (dec_new HO root (mkTree size bs) stream q) tr st ->
     pp_next (d_inner HO st) <> Some None /\
     (dec_next HO st = None -> pp_stack (d_inner HO st) = [] /\ pp_buffer (d_inner HO st) = [])) /\
  (forall tr st, rd_polls HO (rd_new HO root q (mkTree size bs) stream) tr st ->
     pp_next (Fsm.r_iter HO st) <> Some None /\
     (forall rd, rd_next HO st = RDone rd -> pp_stack (Fsm.r_iter HO st) = [] /\ pp_buffer (Fsm.r_iter HO st) = [])).
Proof. exact decoders_iter_never_panics. Qed.
Print Assumptions C09_decoders_iterator_never_panics.

(* ---- collision form (Proofs/Collision.v; depends on Classical_Prop.classic and on nothing else): the idealised hypothesis
   cv_injective is dropped; under 32-byte outputs and a correct byte comparison the conclusion holds OR the hash functions
   have a collision between two distinct valid inputs ---- *)
From BaoV Require Import Proofs.Collision.
Theorem C09_e2e_alteration_or_collision : forall (HO : hops), cv_len32 HO -> beq_correct HO ->
  (forall (data : bytes HO) (bs : N) (q : ranges),
  (blen HO data <= 2 ^ 63)%N -> (bs <= 10)%N -> wf_ranges q = true -> q <> [] ->
  forall (p k : nat) (b b' : B HO),
  (length (flat HO (firstn k (honest HO data bs q))) <= p)%nat ->
  (p < length (flat HO (firstn (S k) (honest HO data bs q))))%nat ->
  nth_error (flat HO (honest HO data bs q)) p = Some b -> b' <> b ->
  let stream := firstn p (flat HO (honest HO data bs q)) ++ b' :: skipn (S p) (flat HO (honest HO data bs q)) in
  exists it, nth_error (honest HO data bs q) k = Some it /\
  (forall ys o st,
     dec_run HO (dec_new HO (root_hash HO data) (mkTree (blen HO data) bs) stream q) = (ys, o, st) ->
     ys = firstn k (honest HO data bs q) /\ o = Failed (item_err HO false it)) /\
  (forall ys o st,
     rd_run HO (rd_new HO (root_hash HO data) q (mkTree (blen HO data) bs) stream) = (ys, o, st) ->
     ys = firstn k (honest HO data bs q) /\ o = Failed (item_err HO false it))) \/
  collision HO.
Proof. intros HO Hl Hb. apply (or_collision HO _ Hl Hb). exact (C09_e2e_alteration HO). Qed.
Print Assumptions C09_e2e_alteration_or_collision.

Theorem C09_e2e_drivers_alteration_or_collision : forall (HO : hops), cv_len32 HO -> beq_correct HO ->
  (forall (data : bytes HO) (bs : N) (q : ranges),
  (blen HO data <= 2 ^ 63)%N -> (bs <= 10)%N -> wf_ranges q = true ->
  forall (p k : nat) (b b' : B HO),
  (length (flat HO (firstn k (honest HO data bs q))) <= p)%nat ->
  (p < length (flat HO (firstn (S k) (honest HO data bs q))))%nat ->
  nth_error (flat HO (honest HO data bs q)) p = Some b -> b' <> b ->
  let stream := firstn p (flat HO (honest HO data bs q)) ++ b' :: skipn (S p) (flat HO (honest HO data bs q)) in
  forall (target : bytes HO) (ob : outboard HO),
  ob_root ob = root_hash HO data -> ob_tree ob = mkTree (blen HO data) bs ->
  exists it, nth_error (honest HO data bs q) k = Some it /\
    dec_err_kind (item_err HO false it) = KInvalidData /\
    let a := apply_items HO (firstn k (honest HO data bs q)) target ob in
    (exists st', decode_ranges HO stream q target ob =
       (ranges_result (a_res HO a) (Failed (item_err HO false it)), a_target HO a, a_ob HO a, st')) /\
    (exists st', decode_ranges_fsm HO stream q target ob =
       (ranges_result (a_res HO a) (Failed (item_err HO false it)), a_target HO a, a_ob HO a, st')) /\
    (a_res HO a = SOk -> ranges_result (a_res HO a) (Failed (item_err HO false it)) = Err (item_err HO false it))) \/
  collision HO.
Proof. intros HO Hl Hb. apply (or_collision HO _ Hl Hb). exact (C09_e2e_drivers_alteration HO). Qed.
Print Assumptions C09_e2e_drivers_alteration_or_collision.

