(* C16 - decoding the last chunk authenticates the claimed size.  Statements only; proofs in
   Proofs/Size*.v. *)
From BaoV Require Import Model.Fsm Spec.EncSpec Spec.RangeSpec Spec.PlanSpec Spec.HashAssm.
From BaoV Require Import Proofs.DecLoop.
From BaoV Require Import Proofs.SizeHash Proofs.SizeDec Proofs.SizeSpine Proofs.SizeMain.

(* a decoder created with the TRUE root hash of `data` but a CLAIMED size size', whose query selects
   the last chunk of the claimed geometry, finishes without error on NO stream unless size' = |data| *)
Theorem C16_size_authenticated : forall HO, hash_ok HO ->
  forall (data : bytes HO) size' bs q (stream : bytes HO) ys st,
  size' <= 2 ^ 63 -> blen HO data <= 2 ^ 63 -> bs <= 10 -> wf_ranges q = true ->
  sel q size' (nchunks size' - 1) = true ->
  dec_run HO (dec_new HO (root_hash HO data) (mkTree size' bs) stream q) = (ys, Finished, st) ->
  size' = blen HO data.
Proof. exact c16_size_authenticated. Qed.
Print Assumptions C16_size_authenticated.

Theorem C16_size_authenticated_fsm : forall HO, hash_ok HO ->
  forall (data : bytes HO) size' bs q (stream : bytes HO) ys st,
  size' <= 2 ^ 63 -> blen HO data <= 2 ^ 63 -> bs <= 10 -> wf_ranges q = true ->
  sel q size' (nchunks size' - 1) = true ->
  rd_run HO (rd_new HO (root_hash HO data) q (mkTree size' bs) stream) = (ys, Finished, st) ->
  size' = blen HO data.
Proof. exact c16_size_authenticated_fsm. Qed.
Print Assumptions C16_size_authenticated_fsm.

(* no claimed size (and no stream) makes the decoder models panic or exhaust their loop fuel *)
Theorem C16_total : forall HO, hash_ok HO ->
  forall (data : bytes HO) size' bs q (stream : bytes HO),
  size' <= 2 ^ 63 -> blen HO data <= 2 ^ 63 -> bs <= 10 -> wf_ranges q = true ->
  sel q size' (nchunks size' - 1) = true ->
  (forall ys o st,
     dec_run HO (dec_new HO (root_hash HO data) (mkTree size' bs) stream q) = (ys, o, st) ->
     o <> Panicked /\ o <> OutOfFuel) /\
  (forall ys o st,
     rd_run HO (rd_new HO (root_hash HO data) q (mkTree size' bs) stream) = (ys, o, st) ->
     o <> Panicked /\ o <> OutOfFuel).
Proof. exact c16_total. Qed.
Print Assumptions C16_total.

(* the same for an arbitrary expected root value *)
Theorem C16_total_any_root : forall HO, hash_ok HO ->
  forall (root : hash HO) size' bs q (stream : bytes HO),
  size' <= 2 ^ 63 -> bs <= 10 -> wf_ranges q = true ->
  sel q size' (nchunks size' - 1) = true ->
  (forall ys o st, dec_run HO (dec_new HO root (mkTree size' bs) stream q) = (ys, o, st) ->
     o <> Panicked /\ o <> OutOfFuel) /\
  (forall ys o st, rd_run HO (rd_new HO root q (mkTree size' bs) stream) = (ys, o, st) ->
     o <> Panicked /\ o <> OutOfFuel).
Proof. exact c16_total_any_root. Qed.
Print Assumptions C16_total_any_root.

(* ---- the key lemmas ---- *)
(* hash_subtree is injective in (start chunk, data), for data of DIFFERENT lengths and flags *)
Theorem C16_hash_subtree_inj_len : forall HO, hash_ok HO ->
  forall s1 s2 (d1 d2 : bytes HO) r1 r2,
  blen HO d1 <= 1024 * 2 ^ 63 -> blen HO d2 <= 1024 * 2 ^ 63 ->
  hash_subtree HO s1 d1 r1 = hash_subtree HO s2 d2 r2 -> s1 = s2 /\ d1 = d2.
Proof. exact hash_subtree_inj_gen. Qed.
Print Assumptions C16_hash_subtree_inj_len.

(* the plan decoders (any step function whose accepted steps compare the expected value) over the
   claimed plan, started from the true root value *)
Theorem C16_plan_size_authenticated : forall HO, hash_ok HO ->
  forall step, step_ok HO step ->
  forall (data : bytes HO) size' bs q,
  size' <= 2 ^ 63 -> blen HO data <= 2 ^ 63 -> wf_ranges q = true ->
  sel q size' (nchunks size' - 1) = true ->
  forall plan root stk enc,
  plan = pre_plan size' 0 bs (truncate_ranges q size') -> root = root_hash HO data ->
  r_outcome HO (dec_items HO step plan (root :: stk) enc) = Finished ->
  size' = blen HO data.
Proof. exact plan_size_authenticated. Qed.
Print Assumptions C16_plan_size_authenticated.

(* the response iterator always ends within fewer than 2^64 items and yields the recursive plan *)
Theorem C16_response_ends : forall size bs q, size <= 2 ^ 63 -> wf_ranges q = true ->
  exists n, ends_within response_next (response_new (mkTree size bs) q) n /\ N.of_nat n < 2 ^ 64 /\
            run_iter response_next (response_new (mkTree size bs) q) = pre_plan size 0 bs q.
Proof. exact response_ends. Qed.
Print Assumptions C16_response_ends.

(* ======== Gap audit: with a wrong claimed size every stream is REJECTED WITH AN ERROR, by the iterators and by
   the two decode_ranges drivers; which queries are size proofs ========
   Proofs in Proofs/GapDrivers.v, GapNonvac.v. *)
From BaoV Require Import Proofs.DecRanges Proofs.GapDrivers Proofs.GapNonvac.

(* both iterators, on EVERY stream: the run ends with an error value (not Finished, no panic, no fuel exhaustion) *)
Theorem C16_wrong_size_rejected : forall HO, hash_ok HO ->
  forall (data : bytes HO) size' bs q,
  size' <= 2 ^ 63 -> blen HO data <= 2 ^ 63 -> bs <= 10 -> wf_ranges q = true ->
  sel q size' (nchunks size' - 1) = true -> size' <> blen HO data ->
  forall (stream : bytes HO) ys o st,
  dec_run HO (dec_new HO (root_hash HO data) (mkTree size' bs) stream q) = (ys, o, st) ->
  exists e, o = Failed e.
Proof. exact c16_rejected_sync. Qed.
Print Assumptions C16_wrong_size_rejected.

Theorem C16_wrong_size_rejected_fsm : forall HO, hash_ok HO ->
  forall (data : bytes HO) size' bs q,
  size' <= 2 ^ 63 -> blen HO data <= 2 ^ 63 -> bs <= 10 -> wf_ranges q = true ->
  sel q size' (nchunks size' - 1) = true -> size' <> blen HO data ->
  forall (stream : bytes HO) ys o st,
  rd_run HO (rd_new HO (root_hash HO data) q (mkTree size' bs) stream) = (ys, o, st) ->
  exists e, o = Failed e.
Proof. exact c16_rejected_fsm. Qed.
Print Assumptions C16_wrong_size_rejected_fsm.

(* the decode_ranges drivers, for any target and any outboard carrying the true root hash and the CLAIMED tree:
   the result is ranges_result (saves of the items applied) (Failed e), i.e. the decoder's error e, unless a save
   failed first (then its io error; a panic only if a save panicked: C01_ranges_result, C01_apply_items_fold) *)
Theorem C16_decode_ranges_rejected : forall HO, hash_ok HO ->
  forall (data : bytes HO) size' bs q,
  size' <= 2 ^ 63 -> blen HO data <= 2 ^ 63 -> bs <= 10 -> wf_ranges q = true ->
  sel q size' (nchunks size' - 1) = true -> size' <> blen HO data ->
  forall (stream target : bytes HO) (ob : outboard HO) res target' ob' st',
  ob_root ob = root_hash HO data -> ob_tree ob = mkTree size' bs ->
  decode_ranges HO stream q target ob = (res, target', ob', st') ->
  exists ys e, let a := apply_items HO ys target ob in
    res = ranges_result (a_res HO a) (Failed e) /\ target' = a_target HO a /\ ob' = a_ob HO a.
Proof. exact c16_decode_ranges_rejected. Qed.
Print Assumptions C16_decode_ranges_rejected.

Theorem C16_decode_ranges_fsm_rejected : forall HO, hash_ok HO ->
  forall (data : bytes HO) size' bs q,
  size' <= 2 ^ 63 -> blen HO data <= 2 ^ 63 -> bs <= 10 -> wf_ranges q = true ->
  sel q size' (nchunks size' - 1) = true -> size' <> blen HO data ->
  forall (stream target : bytes HO) (ob : outboard HO) res target' ob' st',
  ob_root ob = root_hash HO data -> ob_tree ob = mkTree size' bs ->
  decode_ranges_fsm HO stream q target ob = (res, target', ob', st') ->
  exists ys e, let a := apply_items HO ys target ob in
    res = ranges_result (a_res HO a) (Failed e) /\ target' = a_target HO a /\ ob' = a_ob HO a.
Proof. exact c16_decode_ranges_fsm_rejected. Qed.
Print Assumptions C16_decode_ranges_fsm_rejected.

(* io-backed and empty outboards never panic on save: there both drivers return an error value on every stream *)
Theorem C16_drivers_error : forall HO, hash_ok HO ->
  forall (data : bytes HO) size' bs q (stream target : bytes HO) (ob : outboard HO),
  size' <= 2 ^ 63 -> blen HO data <= 2 ^ 63 -> bs <= 10 -> wf_ranges q = true ->
  sel q size' (nchunks size' - 1) = true -> size' <> blen HO data ->
  ob_root ob = root_hash HO data -> ob_tree ob = mkTree size' bs ->
  (ob_k ob = PreIO \/ ob_k ob = PostIO \/ ob_k ob = EmptyOb) ->
  (exists e, fst (fst (fst (decode_ranges HO stream q target ob))) = Err e) /\
  (exists e, fst (fst (fst (decode_ranges_fsm HO stream q target ob))) = Err e).
Proof. exact c16_drivers_error. Qed.
Print Assumptions C16_drivers_error.

(* the side condition on the query says exactly "contains the last chunk of the claimed geometry or reaches past
   the claimed end"; the all-chunks query [0] satisfies it for every claimed size *)
Theorem C16_size_proof_query_iff : forall (q : ranges) (size' : N),
  sel q size' (nchunks size' - 1) = true <->
  (mem q (nchunks size' - 1) = true \/ reaches q (nchunks size') = true).
Proof. exact size_proof_query_iff. Qed.
Print Assumptions C16_size_proof_query_iff.

Theorem C16_all_query_is_size_proof : forall size',
  wf_ranges [0] = true /\ sel [0] size' (nchunks size' - 1) = true.
Proof. exact size_proof_query_all. Qed.
Print Assumptions C16_all_query_is_size_proof.

Theorem C16_rejected_nonvacuous :
  exists HO, hash_ok HO /\
  exists (data : bytes HO) (size' bs : N) (q : ranges) (ob : outboard HO),
    size' <= 2 ^ 63 /\ blen HO data <= 2 ^ 63 /\ bs <= 10 /\ wf_ranges q = true /\
    sel q size' (nchunks size' - 1) = true /\ size' <> blen HO data /\
    ob_root ob = root_hash HO data /\ ob_tree ob = mkTree size' bs /\
    (ob_k ob = PreIO \/ ob_k ob = PostIO \/ ob_k ob = EmptyOb).
Proof. exact c16_nonvacuous. Qed.
Print Assumptions C16_rejected_nonvacuous.

(* ======== Gap audit: the side condition "the query selects the last claimed chunk" cannot be dropped.  With a claimed
   size of ANOTHER CHUNK COUNT and a query that stays away from the end both decoders FINISH; what they yield is
   nevertheless true (C01_any_size_sync / C01_any_size_fsm: every item is a true item of the blob).
   Proof in Proofs/GapKTop.v. ======== *)
From BaoV Require Import Proofs.GapKTop.

Theorem C16_unselected_end_finishes_refuted :
  exists HO, hash_ok HO /\
  exists (data stream : bytes HO) (size' bs : N) (q : ranges),
    size' <= 2 ^ 63 /\ blen HO data <= 2 ^ 63 /\ bs <= 10 /\ wf_ranges q = true /\
    nchunks size' <> nchunks (blen HO data) /\ sel q size' (nchunks size' - 1) = false /\
    (exists st, dec_run HO (dec_new HO (root_hash HO data) (mkTree size' bs) stream q)
                = (honest HO data bs q, Finished, st)) /\
    (exists st, rd_run HO (rd_new HO (root_hash HO data) q (mkTree size' bs) stream)
                = (honest HO data bs q, Finished, st)).
Proof. exact wrong_size_finishes_witness. Qed.
Print Assumptions C16_unselected_end_finishes_refuted.

(* ======== Gap audit: per-item form of C16, without any hypothesis on the query and without the run finishing.
   A decoder told ANY size size' that yields (before its first error) a leaf ending at the claimed size has been told
   the true size.  (C16_size_authenticated is the special case: a finished run whose query selects the last claimed
   chunk has yielded that leaf.)  And a run that finishes, whatever the claimed size and the query, has yielded only
   true items under their right node ids (C01_id_items_def).  Proofs in Proofs/GapKLast.v. ======== *)
From BaoV Require Import Proofs.GapKRun Proofs.GapKShapeTop Proofs.GapKLast.

Theorem C16_last_leaf_authenticates_size : forall HO, hash_ok HO ->
  forall (data : bytes HO) (size' bs : N) (q : ranges),
  size' <= 2 ^ 63 -> blen HO data <= 2 ^ 63 -> wf_ranges q = true ->
  forall (stream : bytes HO) ys o,
  (exists st, dec_run HO (dec_new HO (root_hash HO data) (mkTree size' bs) stream q) = (ys, o, st)) \/
  (exists st, rd_run HO (rd_new HO (root_hash HO data) q (mkTree size' bs) stream) = (ys, o, st)) ->
  forall off d, In (ILeaf off d) ys -> off + blen HO d = size' -> size' = blen HO data.
Proof. exact any_size_last_leaf. Qed.
Print Assumptions C16_last_leaf_authenticates_size.

Theorem C16_last_leaf_nonvacuous :
  exists HO, hash_ok HO /\
  exists (data stream : bytes HO) (size' bs : N) (q : ranges) ys o st off d,
    size' <= 2 ^ 63 /\ blen HO data <= 2 ^ 63 /\ bs <= 10 /\ wf_ranges q = true /\
    dec_run HO (dec_new HO (root_hash HO data) (mkTree size' bs) stream q) = (ys, o, st) /\
    In (ILeaf off d) ys /\ off + blen HO d = size'.
Proof. exact any_size_last_leaf_nonvacuous. Qed.
Print Assumptions C16_last_leaf_nonvacuous.

Theorem C16_finished_items_right : forall HO, hash_ok HO ->
  forall (data : bytes HO) (size' bs : N) (q : ranges),
  size' <= 2 ^ 63 -> blen HO data <= 2 ^ 63 -> wf_ranges q = true ->
  forall (stream : bytes HO) ys,
  (exists st, dec_run HO (dec_new HO (root_hash HO data) (mkTree size' bs) stream q) = (ys, Finished, st)) \/
  (exists st, rd_run HO (rd_new HO (root_hash HO data) q (mkTree size' bs) stream) = (ys, Finished, st)) ->
  forall i, In i ys -> right_id_item HO data size' i.
Proof. exact any_size_finished_ids. Qed.
Print Assumptions C16_finished_items_right.

(* ---- collision form (Proofs/Collision.v; depends on Classical_Prop.classic): without the idealised injectivity
   hypothesis, a run that finishes under a wrong claimed size exhibits a collision of the hash functions ---- *)
From BaoV Require Import Proofs.Collision.
Theorem C16_size_authenticated_or_collision : forall HO, cv_len32 HO -> beq_correct HO ->
  (forall (data : bytes HO) size' bs q (stream : bytes HO) ys st,
  size' <= 2 ^ 63 -> blen HO data <= 2 ^ 63 -> bs <= 10 -> wf_ranges q = true ->
  sel q size' (nchunks size' - 1) = true ->
  dec_run HO (dec_new HO (root_hash HO data) (mkTree size' bs) stream q) = (ys, Finished, st) ->
  size' = blen HO data) \/
  collision HO.
Proof. intros HO Hl Hb. apply (or_collision HO _ Hl Hb). exact (C16_size_authenticated HO). Qed.
Print Assumptions C16_size_authenticated_or_collision.

Theorem C16_size_authenticated_fsm_or_collision : forall HO, cv_len32 HO -> beq_correct HO ->
  (forall (data : bytes HO) size' bs q (stream : bytes HO) ys st,
  size' <= 2 ^ 63 -> blen HO data <= 2 ^ 63 -> bs <= 10 -> wf_ranges q = true ->
  sel q size' (nchunks size' - 1) = true ->
  rd_run HO (rd_new HO (root_hash HO data) q (mkTree size' bs) stream) = (ys, Finished, st) ->
  size' = blen HO data) \/
  collision HO.
Proof. intros HO Hl Hb. apply (or_collision HO _ Hl Hb). exact (C16_size_authenticated_fsm HO). Qed.
Print Assumptions C16_size_authenticated_fsm_or_collision.

Theorem C16_wrong_size_rejected_or_collision : forall HO, cv_len32 HO -> beq_correct HO ->
  (forall (data : bytes HO) size' bs q,
  size' <= 2 ^ 63 -> blen HO data <= 2 ^ 63 -> bs <= 10 -> wf_ranges q = true ->
  sel q size' (nchunks size' - 1) = true -> size' <> blen HO data ->
  forall (stream : bytes HO) ys o st,
  dec_run HO (dec_new HO (root_hash HO data) (mkTree size' bs) stream q) = (ys, o, st) ->
  exists e, o = Failed e) \/
  collision HO.
Proof. intros HO Hl Hb. apply (or_collision HO _ Hl Hb). exact (C16_wrong_size_rejected HO). Qed.
Print Assumptions C16_wrong_size_rejected_or_collision.

Theorem C16_wrong_size_rejected_fsm_or_collision : forall HO, cv_len32 HO -> beq_correct HO ->
  (forall (data : bytes HO) size' bs q,
  size' <= 2 ^ 63 -> blen HO data <= 2 ^ 63 -> bs <= 10 -> wf_ranges q = true ->
  sel q size' (nchunks size' - 1) = true -> size' <> blen HO data ->
  forall (stream : bytes HO) ys o st,
  rd_run HO (rd_new HO (root_hash HO data) q (mkTree size' bs) stream) = (ys, o, st) ->
  exists e, o = Failed e) \/
  collision HO.
Proof. intros HO Hl Hb. apply (or_collision HO _ Hl Hb). exact (C16_wrong_size_rejected_fsm HO). Qed.
Print Assumptions C16_wrong_size_rejected_fsm_or_collision.

