(* C16 - decoding the last chunk authenticates the claimed size.  Statements only; proofs in
   Proofs/Size*.v. *)
From BaoV Require Import Model.Fsm Spec.EncSpec Spec.RangeSpec Spec.PlanSpec Spec.HashAssm.
From BaoV Require Import Proofs.DecLoop.
From BaoV Require Import Proofs.SizeHash Proofs.SizeDec Proofs.SizeSpine Proofs.SizeMain.

(* a decoder created with the TRUE root hash of `data` but a CLAIMED size size', whose query selects
   the last chunk of the claimed geometry, finishes without error on NO stream unless size' = |data| *)
Theorem C16_size_authenticated : forall HO, hash_ok HO ->
  forall (data : bytes HO) size' bs q (stream : bytes HO) ys st,
  size' <= 2 ^ 63 -> blen HO data <= 2 ^ 63 -> bs <= 10 -> wf_ranges q = true ->
  sel q size' (nchunks size' - 1) = true ->
  dec_run HO (dec_new HO (root_hash HO data) (mkTree size' bs) stream q) = (ys, Finished, st) ->
  size' = blen HO data.
Proof. exact c16_size_authenticated. Qed.
Print Assumptions C16_size_authenticated.

Theorem C16_size_authenticated_fsm : forall HO, hash_ok HO ->
  forall (data : bytes HO) size' bs q (stream : bytes HO) ys st,
  size' <= 2 ^ 63 -> blen HO data <= 2 ^ 63 -> bs <= 10 -> wf_ranges q = true ->
  sel q size' (nchunks size' - 1) = true ->
  rd_run HO (rd_new HO (root_hash HO data) q (mkTree size' bs) stream) = (ys, Finished, st) ->
  size' = blen HO data.
Proof. exact c16_size_authenticated_fsm. Qed.
Print Assumptions C16_size_authenticated_fsm.

(* no claimed size (and no stream) makes the decoder models panic or exhaust their loop fuel *)
Theorem C16_total : forall HO, hash_ok HO ->
  forall (data : bytes HO) size' bs q (stream : bytes HO),
  size' <= 2 ^ 63 -> blen HO data <= 2 ^ 63 -> bs <= 10 -> wf_ranges q = true ->
  sel q size' (nchunks size' - 1) = true ->
  (forall ys o st,
     dec_run HO (dec_new HO (root_hash HO data) (mkTree size' bs) stream q) = (ys, o, st) ->
     o <> Panicked /\ o <> OutOfFuel) /\
  (forall ys o st,
     rd_run HO (rd_new HO (root_hash HO data) q (mkTree size' bs) stream) = (ys, o, st) ->
     o <> Panicked /\ o <> OutOfFuel).
Proof. exact c16_total. Qed.
Print Assumptions C16_total.

(* the same for an arbitrary expected root value *)
Theorem C16_total_any_root : forall HO, hash_ok HO ->
  forall (root : hash HO) size' bs q (stream : bytes HO),
  size' <= 2 ^ 63 -> bs <= 10 -> wf_ranges q = true ->
  sel q size' (nchunks size' - 1) = true ->
  (forall ys o st, dec_run HO (dec_new HO root (mkTree size' bs) stream q) = (ys, o, st) ->
     o <> Panicked /\ o <> OutOfFuel) /\
  (forall ys o st, rd_run HO (rd_new HO root q (mkTree size' bs) stream) = (ys, o, st) ->
     o <> Panicked /\ o <> OutOfFuel).
Proof. exact c16_total_any_root. Qed.
Print Assumptions C16_total_any_root.

(* ---- the key lemmas ---- *)
(* hash_subtree is injective in (start chunk, data), for data of DIFFERENT lengths and flags *)
Theorem C16_hash_subtree_inj_len : forall HO, hash_ok HO ->
  forall s1 s2 (d1 d2 : bytes HO) r1 r2,
  blen HO d1 <= 1024 * 2 ^ 63 -> blen HO d2 <= 1024 * 2 ^ 63 ->
  hash_subtree HO s1 d1 r1 = hash_subtree HO s2 d2 r2 -> s1 = s2 /\ d1 = d2.
Proof. exact hash_subtree_inj_gen. Qed.
Print Assumptions C16_hash_subtree_inj_len.

(* the plan decoders (any step function whose accepted steps compare the expected value) over the
   claimed plan, started from the true root value *)
Theorem C16_plan_size_authenticated : forall HO, hash_ok HO ->
  forall step, step_ok HO step ->
  forall (data : bytes HO) size' bs q,
  size' <= 2 ^ 63 -> blen HO data <= 2 ^ 63 -> wf_ranges q = true ->
  sel q size' (nchunks size' - 1) = true ->
  forall plan root stk enc,
  plan = pre_plan size' 0 bs (truncate_ranges q size') -> root = root_hash HO data ->
  r_outcome HO (dec_items HO step plan (root :: stk) enc) = Finished ->
  size' = blen HO data.
Proof. exact plan_size_authenticated. Qed.
Print Assumptions C16_plan_size_authenticated.

(* the response iterator always ends within fewer than 2^64 items and yields the recursive plan *)
Theorem C16_response_ends : forall size bs q, size <= 2 ^ 63 -> wf_ranges q = true ->
  exists n, ends_within response_next (response_new (mkTree size bs) q) n /\ N.of_nat n < 2 ^ 64 /\
            run_iter response_next (response_new (mkTree size bs) q) = pre_plan size 0 bs q.
Proof. exact response_ends. Qed.
Print Assumptions C16_response_ends.
