(* C06 - the validators report exactly the chunk groups that are touched by the query and verify against
   the stored outboard (and data), and what verifies is the blob.  Statements only; proofs and the
   definitions of the predicates in Proofs/Val*.v:
     stored_pair ob nd            the pair load_sync returns for node nd (None: no slot)
     grp_start bs ga, grp_end size bs ga   first / end chunk of chunk group ga
     top_path size bs ga          the stored-pair nodes from the root of the Shape down to group ga, with sides
     touched / chain_ok / leaf_ok the three predicates (heq x y := bytes_eqb x y = true)
     val_spec                     recursive mirror of validate_rec over the Shape;  val_top = val_spec at the root
     grp_verdict                  boolean: chain and leaf of one group verify
     path_true data bs ob ga      every stored pair on the path of ga is the blob's true pair
     loads_ok ob size bs          no load of a node of the tree (sp_pre_nodes size bs) fails. *)
From BaoV Require Import Model.Sync Model.Fsm Spec.EncSpec Spec.HashAssm.
From BaoV Require Import Proofs.PlanBase Proofs.PlanNav Proofs.DecHash
  Proofs.ValSpec Proofs.ValPath Proofs.ValTrue Proofs.ValTop Proofs.ValSound.

(* ---- 1. exact output ---- *)
(* the recursive specification: one step of val_spec *)
Theorem C06_val_spec_step : forall (HO : hops) f wd (ob : outboard HO) (d : bytes HO) size bs Sel ga n owed is_root,
  val_spec HO (S f) wd ob d size bs Sel ga n owed is_root =
    if negb (touchedn Sel size bs ga n) then []
    else if n <=? 1 then leaf_rep HO wd d size bs ga owed is_root
    else
      match stored_pair HO ob (unshift bs (sid ga n)) with
      | None => []
      | Some (l, r) =>
          if negb (bytes_eqb HO (parent_cv HO l r is_root) owed) then []
          else if n <=? 2 then
            (if touchedn Sel size bs ga 1 then leaf_rep HO wd d size bs ga l false else [])
            ++ (if touchedn Sel size bs (ga + 1) 1 then leaf_rep HO wd d size bs (ga + 1) r false else [])
          else
            let half := capof n / 2 in
            val_spec HO f wd ob d size bs Sel ga half l false
            ++ val_spec HO f wd ob d size bs Sel (ga + half) (n - half) r false
      end.
Proof. exact val_spec_eq. Qed.
Print Assumptions C06_val_spec_step.

Theorem C06_data_spec : forall (HO : hops) (size bs : N) (q : ranges) (ob : outboard HO),
  size <= 2 ^ 63 -> bs <= 10 -> wf_ranges q = true ->
  ob_tree ob = mkTree size bs -> loads_ok HO ob size bs ->
  forall d : bytes HO, blen HO d = size -> 2 <= sp_blocks size bs ->
  valid_ranges HO ob d q = (val_top HO true ob d size bs q, Ok tt).
Proof. exact data_exact. Qed.
Print Assumptions C06_data_spec.

(* the reported list, in increasing order of the groups *)
Theorem C06_data_exact : forall (HO : hops) (size bs : N) (q : ranges) (ob : outboard HO),
  size <= 2 ^ 63 -> bs <= 10 -> wf_ranges q = true ->
  ob_tree ob = mkTree size bs -> loads_ok HO ob size bs ->
  forall d : bytes HO, blen HO d = size -> 2 <= sp_blocks size bs ->
  valid_ranges HO ob d q =
  (flat_map (fun ga => if touchedb q size bs ga && grp_verdict HO true ob d size bs ga
                       then [(grp_start bs ga, grp_end size bs ga)] else [])
            (chunk_range_list 0 (sp_blocks size bs)), Ok tt).
Proof. exact data_exact_groups. Qed.
Print Assumptions C06_data_exact.

Theorem C06_touched : forall q size bs ga, touchedb q size bs ga = true <-> touched q size bs ga.
Proof. exact touched_iff. Qed.
Print Assumptions C06_touched.

Theorem C06_verdict : forall (HO : hops) (size bs : N) (ob : outboard HO) (wd : bool) (d : bytes HO) (ga : N),
  2 <= sp_blocks size bs ->
  grp_verdict HO wd ob d size bs ga = true <->
  chain_ok HO ob size bs ga /\ (wd = true -> leaf_ok HO d ob size bs ga).
Proof. exact grp_verdict_iff. Qed.
Print Assumptions C06_verdict.

(* membership in the output of the specification by the three predicates (wd = true: with data) *)
Theorem C06_data_member : forall (HO : hops) (size bs : N) (q : ranges) (ob : outboard HO),
  size <= 2 ^ 63 ->
  forall (wd : bool) (d : bytes HO) (a e : N), 2 <= sp_blocks size bs ->
  In (a, e) (val_top HO wd ob d size bs q) <->
  exists ga, ga < sp_blocks size bs /\ a = grp_start bs ga /\ e = grp_end size bs ga /\
             touched q size bs ga /\ chain_ok HO ob size bs ga /\ (wd = true -> leaf_ok HO d ob size bs ga).
Proof. exact val_top_member. Qed.
Print Assumptions C06_data_member.

(* a single group: reported iff the data hashes to the root, whatever the query *)
Theorem C06_data_single : forall (HO : hops) (size bs : N) (q : ranges) (ob : outboard HO),
  ob_tree ob = mkTree size bs ->
  forall d : bytes HO, blen HO d = size -> sp_blocks size bs = 1 ->
  valid_ranges HO ob d q =
  ((if bytes_eqb HO (hash_subtree HO 0 d true) (ob_root ob) then [(0, chunks size)] else []), Ok tt).
Proof. exact data_single. Qed.
Print Assumptions C06_data_single.

(* under the hash assumptions heq is equality *)
Theorem C06_heq : forall (HO : hops), hash_ok HO -> forall x y : hash HO, heq HO x y <-> x = y.
Proof. exact bytes_eqb_eq. Qed.
Print Assumptions C06_heq.

(* chain_walk (the boolean walk used by grp_verdict) against the two predicates *)
Theorem C06_chain_walk : forall (HO : hops) (ob : outboard HO) p owed ir h,
  chain_walk HO ob p owed ir = Some h <-> chain_prop HO ob p owed ir /\ owed_walk HO ob p (Some owed) = Some h.
Proof. exact chain_walk_iff. Qed.
Print Assumptions C06_chain_walk.

(* ---- 2. what is reported is the blob ---- *)
Theorem C06_reported_is_true : forall (HO : hops), hash_ok HO ->
  forall (data : bytes HO) (bs : N) (ob : outboard HO),
  blen HO data <= 2 ^ 63 -> bs <= 10 -> ob_root ob = root_hash HO data ->
  forall q : ranges, wf_ranges q = true ->
  ob_tree ob = mkTree (blen HO data) bs -> loads_ok HO ob (blen HO data) bs ->
  forall (d : bytes HO) (a e : N), blen HO d = blen HO data -> 2 <= sp_blocks (blen HO data) bs ->
  In (a, e) (fst (valid_ranges HO ob d q)) ->
  chunk_bytes HO d a e = chunk_bytes HO data a e /\
  exists ga, ga < sp_blocks (blen HO data) bs /\ a = grp_start bs ga /\ e = grp_end (blen HO data) bs ga /\
             path_true HO data bs ob ga.
Proof. exact reported_is_true. Qed.
Print Assumptions C06_reported_is_true.

Theorem C06_chain_ok_true : forall (HO : hops), hash_ok HO ->
  forall (data : bytes HO) (bs : N) (ob : outboard HO),
  blen HO data <= 2 ^ 63 -> bs <= 10 -> ob_root ob = root_hash HO data ->
  forall ga, ga < sp_blocks (blen HO data) bs ->
  chain_ok HO ob (blen HO data) bs ga -> path_true HO data bs ob ga.
Proof. exact chain_ok_true. Qed.
Print Assumptions C06_chain_ok_true.

Theorem C06_leaf_ok_true : forall (HO : hops), hash_ok HO ->
  forall (data : bytes HO) (bs : N) (ob : outboard HO),
  blen HO data <= 2 ^ 63 -> bs <= 10 -> ob_root ob = root_hash HO data ->
  forall (d : bytes HO) ga, ga < sp_blocks (blen HO data) bs -> blen HO d = blen HO data ->
  chain_ok HO ob (blen HO data) bs ga -> leaf_ok HO d ob (blen HO data) bs ga ->
  chunk_bytes HO d (grp_start bs ga) (grp_end (blen HO data) bs ga)
  = chunk_bytes HO data (grp_start bs ga) (grp_end (blen HO data) bs ga).
Proof. exact leaf_ok_true. Qed.
Print Assumptions C06_leaf_ok_true.

Theorem C06_single_reported_is_true : forall (HO : hops), hash_ok HO ->
  forall (data : bytes HO) (bs : N) (ob : outboard HO),
  blen HO data <= 2 ^ 63 -> bs <= 10 -> ob_root ob = root_hash HO data ->
  forall q : ranges, ob_tree ob = mkTree (blen HO data) bs ->
  forall d : bytes HO, blen HO d = blen HO data -> sp_blocks (blen HO data) bs = 1 ->
  fst (valid_ranges HO ob d q) <> [] -> d = data.
Proof. exact single_reported_is_true. Qed.
Print Assumptions C06_single_reported_is_true.

(* ---- 3. what is the blob and touched is reported ---- *)
Theorem C06_valid_is_reported : forall (HO : hops), hash_ok HO ->
  forall (data : bytes HO) (bs : N) (ob : outboard HO),
  blen HO data <= 2 ^ 63 -> bs <= 10 -> ob_root ob = root_hash HO data ->
  forall q : ranges, wf_ranges q = true ->
  ob_tree ob = mkTree (blen HO data) bs -> loads_ok HO ob (blen HO data) bs ->
  forall (d : bytes HO) (ga : N), blen HO d = blen HO data -> 2 <= sp_blocks (blen HO data) bs ->
  ga < sp_blocks (blen HO data) bs ->
  touched q (blen HO data) bs ga -> path_true HO data bs ob ga ->
  chunk_bytes HO d (grp_start bs ga) (grp_end (blen HO data) bs ga)
  = chunk_bytes HO data (grp_start bs ga) (grp_end (blen HO data) bs ga) ->
  In (grp_start bs ga, grp_end (blen HO data) bs ga) (fst (valid_ranges HO ob d q)).
Proof. exact valid_is_reported. Qed.
Print Assumptions C06_valid_is_reported.

(* an intact store: exactly the touched groups *)
Theorem C06_intact_complete : forall (HO : hops), hash_ok HO ->
  forall (data : bytes HO) (bs : N) (ob : outboard HO),
  blen HO data <= 2 ^ 63 -> bs <= 10 -> ob_root ob = root_hash HO data ->
  forall q : ranges, wf_ranges q = true ->
  ob_tree ob = mkTree (blen HO data) bs -> loads_ok HO ob (blen HO data) bs ->
  2 <= sp_blocks (blen HO data) bs ->
  (forall ga, ga < sp_blocks (blen HO data) bs -> path_true HO data bs ob ga) ->
  valid_ranges HO ob data q =
  (flat_map (fun ga => if touchedb q (blen HO data) bs ga
                       then [(grp_start bs ga, grp_end (blen HO data) bs ga)] else [])
            (chunk_range_list 0 (sp_blocks (blen HO data) bs)), Ok tt).
Proof. exact intact_complete. Qed.
Print Assumptions C06_intact_complete.

Theorem C06_single_intact : forall (HO : hops), hash_ok HO ->
  forall (data : bytes HO) (bs : N) (ob : outboard HO),
  blen HO data <= 2 ^ 63 -> ob_root ob = root_hash HO data ->
  forall q : ranges, ob_tree ob = mkTree (blen HO data) bs ->
  sp_blocks (blen HO data) bs = 1 ->
  valid_ranges HO ob data q = ([(0, chunks (blen HO data))], Ok tt).
Proof. exact single_valid_is_reported. Qed.
Print Assumptions C06_single_intact.

(* ---- 4. outboard only, and the fsm twins ---- *)
Theorem C06_outboard_spec : forall (HO : hops) (size bs : N) (q : ranges) (ob : outboard HO),
  size <= 2 ^ 63 -> bs <= 10 -> wf_ranges q = true ->
  ob_tree ob = mkTree size bs -> loads_ok HO ob size bs -> 2 <= sp_blocks size bs ->
  valid_outboard_ranges HO ob q = (val_top HO false ob [] size bs q, Ok tt).
Proof. exact outboard_exact. Qed.
Print Assumptions C06_outboard_spec.

Theorem C06_outboard_exact : forall (HO : hops) (size bs : N) (q : ranges) (ob : outboard HO),
  size <= 2 ^ 63 -> bs <= 10 -> wf_ranges q = true ->
  ob_tree ob = mkTree size bs -> loads_ok HO ob size bs -> 2 <= sp_blocks size bs ->
  valid_outboard_ranges HO ob q =
  (flat_map (fun ga => if touchedb q size bs ga && grp_verdict HO false ob [] size bs ga
                       then [(grp_start bs ga, grp_end size bs ga)] else [])
            (chunk_range_list 0 (sp_blocks size bs)), Ok tt).
Proof. exact outboard_exact_groups. Qed.
Print Assumptions C06_outboard_exact.

Theorem C06_outboard_single : forall (HO : hops) (size bs : N) (q : ranges) (ob : outboard HO),
  ob_tree ob = mkTree size bs -> sp_blocks size bs = 1 ->
  valid_outboard_ranges HO ob q = ([(0, chunks size)], Ok tt).
Proof. exact outboard_single. Qed.
Print Assumptions C06_outboard_single.

Theorem C06_outboard_reported_is_true : forall (HO : hops), hash_ok HO ->
  forall (data : bytes HO) (bs : N) (ob : outboard HO),
  blen HO data <= 2 ^ 63 -> bs <= 10 -> ob_root ob = root_hash HO data ->
  forall q : ranges, wf_ranges q = true ->
  ob_tree ob = mkTree (blen HO data) bs -> loads_ok HO ob (blen HO data) bs ->
  forall a e : N, 2 <= sp_blocks (blen HO data) bs ->
  In (a, e) (fst (valid_outboard_ranges HO ob q)) ->
  exists ga, ga < sp_blocks (blen HO data) bs /\ a = grp_start bs ga /\ e = grp_end (blen HO data) bs ga /\
             path_true HO data bs ob ga.
Proof. exact outboard_reported_is_true. Qed.
Print Assumptions C06_outboard_reported_is_true.

Theorem C06_outboard_valid_is_reported : forall (HO : hops), hash_ok HO ->
  forall (data : bytes HO) (bs : N) (ob : outboard HO),
  blen HO data <= 2 ^ 63 -> bs <= 10 -> ob_root ob = root_hash HO data ->
  forall q : ranges, wf_ranges q = true ->
  ob_tree ob = mkTree (blen HO data) bs -> loads_ok HO ob (blen HO data) bs ->
  forall ga : N, 2 <= sp_blocks (blen HO data) bs -> ga < sp_blocks (blen HO data) bs ->
  touched q (blen HO data) bs ga -> path_true HO data bs ob ga ->
  In (grp_start bs ga, grp_end (blen HO data) bs ga) (fst (valid_outboard_ranges HO ob q)).
Proof. exact outboard_valid_is_reported. Qed.
Print Assumptions C06_outboard_valid_is_reported.

Theorem C06_outboard_intact_complete : forall (HO : hops), hash_ok HO ->
  forall (data : bytes HO) (bs : N) (ob : outboard HO),
  blen HO data <= 2 ^ 63 -> bs <= 10 -> ob_root ob = root_hash HO data ->
  forall q : ranges, wf_ranges q = true ->
  ob_tree ob = mkTree (blen HO data) bs -> loads_ok HO ob (blen HO data) bs ->
  2 <= sp_blocks (blen HO data) bs ->
  (forall ga, ga < sp_blocks (blen HO data) bs -> path_true HO data bs ob ga) ->
  valid_outboard_ranges HO ob q =
  (flat_map (fun ga => if touchedb q (blen HO data) bs ga
                       then [(grp_start bs ga, grp_end (blen HO data) bs ga)] else [])
            (chunk_range_list 0 (sp_blocks (blen HO data) bs)), Ok tt).
Proof. exact outboard_intact_complete. Qed.
Print Assumptions C06_outboard_intact_complete.

Theorem C06_sync_eq_fsm : forall (HO : hops) (ob : outboard HO) (d : bytes HO) (q : ranges),
  (forall nd, load_fsm HO ob nd = load_sync HO ob nd) ->
  valid_ranges_fsm HO ob d q = valid_ranges HO ob d q.
Proof. exact valid_ranges_fsm_eq. Qed.
Print Assumptions C06_sync_eq_fsm.

Theorem C06_sync_eq_fsm_outboard : forall (HO : hops) (ob : outboard HO) (q : ranges),
  (forall nd, load_fsm HO ob nd = load_sync HO ob nd) ->
  valid_outboard_ranges_fsm HO ob q = valid_outboard_ranges HO ob q.
Proof. exact valid_outboard_ranges_fsm_eq. Qed.
Print Assumptions C06_sync_eq_fsm_outboard.

(* ======== Final composition (proofs in Proofs/FinalVal.v) ========
   created_store HO data bs ob (Props/C03.v, C03_created_store_def; C03_created_by_store: every store returned
   by a creation entry point; C07_converges: every fully delivered state of a decode history). *)
From BaoV Require Import Spec.NodeSpec Proofs.FinalStore Proofs.FinalVal.

(* the intact-store premises of C06_intact_complete / C06_outboard_intact_complete hold for a created store, so
   on the blob's own data both validators report exactly the touched groups (one group: the whole blob,
   whatever the query); the fsm validators return the same as the sync ones on such a store, for any data and query *)
Theorem C06_created_store_complete : forall (HO : hops), hash_ok HO ->
  forall (data : bytes HO) (bs : N) (ob : outboard HO),
  blen HO data <= 2 ^ 63 -> bs <= 10 -> created_store HO data bs ob ->
  forall q : ranges, wf_ranges q = true ->
  (loads_ok HO ob (blen HO data) bs /\ forall ga, path_true HO data bs ob ga) /\
  (2 <= sp_blocks (blen HO data) bs ->
     valid_ranges HO ob data q =
     (flat_map (fun ga => if touchedb q (blen HO data) bs ga
                          then [(grp_start bs ga, grp_end (blen HO data) bs ga)] else [])
               (chunk_range_list 0 (sp_blocks (blen HO data) bs)), Ok tt) /\
     valid_outboard_ranges HO ob q =
     (flat_map (fun ga => if touchedb q (blen HO data) bs ga
                          then [(grp_start bs ga, grp_end (blen HO data) bs ga)] else [])
               (chunk_range_list 0 (sp_blocks (blen HO data) bs)), Ok tt)) /\
  (sp_blocks (blen HO data) bs = 1 ->
     valid_ranges HO ob data q = ([(0, chunks (blen HO data))], Ok tt) /\
     valid_outboard_ranges HO ob q = ([(0, chunks (blen HO data))], Ok tt)) /\
  (forall (d : bytes HO) (q0 : ranges),
     valid_ranges_fsm HO ob d q0 = valid_ranges HO ob d q0 /\
     valid_outboard_ranges_fsm HO ob q0 = valid_outboard_ranges HO ob q0).
Proof. exact c06_created_store_complete. Qed.
Print Assumptions C06_created_store_complete.

(* C06_sync_eq_fsm with the premise restricted to the nodes of the tree (it holds for every pre-sized store:
   C07_sized_loads; the unrestricted premise fails for io-backed stores at nodes beyond the tree) *)
Theorem C06_sync_eq_fsm_tree : forall (HO : hops) (size bs : N), size <= 2 ^ 63 -> bs <= 10 ->
  forall ob : outboard HO, ob_tree ob = mkTree size bs ->
  (forall nd, In nd (sp_pre_nodes size bs) -> load_fsm HO ob nd = load_sync HO ob nd) ->
  forall (d : bytes HO) (q : ranges),
  valid_ranges_fsm HO ob d q = valid_ranges HO ob d q /\
  valid_outboard_ranges_fsm HO ob q = valid_outboard_ranges HO ob q.
Proof. exact c06_sync_eq_fsm_tree. Qed.
Print Assumptions C06_sync_eq_fsm_tree.
