(* C06 - the validators report exactly the chunk groups that are touched by the query and verify against
   the stored outboard (and data), and what verifies is the blob.  Statements only; proofs and the
   definitions of the predicates in Proofs/Val*.v:
     stored_pair ob nd            the pair load_sync returns for node nd (None: no slot)
     grp_start bs ga, grp_end size bs ga   first / end chunk of chunk group ga
     top_path size bs ga          the stored-pair nodes from the root of the Shape down to group ga, with sides
     touched / chain_ok / leaf_ok the three predicates (heq x y := bytes_eqb x y = true)
     val_spec                     recursive mirror of validate_rec over the Shape;  val_top = val_spec at the root
     grp_verdict                  boolean: chain and leaf of one group verify
     path_true data bs ob ga      every stored pair on the path of ga is the blob's true pair
     loads_ok ob size bs          no load of a node of the tree (sp_pre_nodes size bs) fails. *)
From BaoV Require Import Model.Sync Model.Fsm Spec.EncSpec Spec.HashAssm.
From BaoV Require Import Proofs.PlanBase Proofs.PlanNav Proofs.DecHash
  Proofs.ValSpec Proofs.ValPath Proofs.ValTrue Proofs.ValTop Proofs.ValSound.

(* ---- 1. exact output ---- *)
(* the recursive specification: one step of val_spec *)
Theorem C06_val_spec_step : forall (HO : hops) f wd (ob : outboard HO) (d : bytes HO) size bs Sel ga n owed is_root,
  val_spec HO (S f) wd ob d size bs Sel ga n owed is_root =
    if negb (touchedn Sel size bs ga n) then []
    else if n <=? 1 then leaf_rep HO wd d size bs ga owed is_root
    else
      match stored_pair HO ob (unshift bs (sid ga n)) with
      | None => []
      | Some (l, r) =>
          if negb (bytes_eqb HO (parent_cv HO l r is_root) owed) then []
          else if n <=? 2 then
            (if touchedn Sel size bs ga 1 then leaf_rep HO wd d size bs ga l false else [])
            ++ (if touchedn Sel size bs (ga + 1) 1 then leaf_rep HO wd d size bs (ga + 1) r false else [])
          else
            let half := capof n / 2 in
            val_spec HO f wd ob d size bs Sel ga half l false
            ++ val_spec HO f wd ob d size bs Sel (ga + half) (n - half) r false
      end.
Proof. exact val_spec_eq. Qed.
Print Assumptions C06_val_spec_step.

Theorem C06_data_spec : forall (HO : hops) (size bs : N) (q : ranges) (ob : outboard HO),
  size <= 2 ^ 63 -> bs <= 10 -> wf_ranges q = true ->
  ob_tree ob = mkTree size bs -> loads_ok HO ob size bs ->
  forall d : bytes HO, blen HO d = size -> 2 <= sp_blocks size bs ->
  valid_ranges HO ob d q = (val_top HO true ob d size bs q, Ok tt).
Proof. exact data_exact. Qed.
Print Assumptions C06_data_spec.

(* the reported list, in increasing order of the groups *)
Theorem C06_data_exact : forall (HO : hops) (size bs : N) (q : ranges) (ob : outboard HO),
  size <= 2 ^ 63 -> bs <= 10 -> wf_ranges q = true ->
  ob_tree ob = mkTree size bs -> loads_ok HO ob size bs ->
  forall d : bytes HO, blen HO d = size -> 2 <= sp_blocks size bs ->
  valid_ranges HO ob d q =
  (flat_map (fun ga => if touchedb q size bs ga && grp_verdict HO true ob d size bs ga
                       then [(grp_start bs ga, grp_end size bs ga)] else [])
            (chunk_range_list 0 (sp_blocks size bs)), Ok tt).
Proof. exact data_exact_groups. Qed.
Print Assumptions C06_data_exact.

Theorem C06_touched : forall q size bs ga, touchedb q size bs ga = true <-> touched q size bs ga.
Proof. exact touched_iff. Qed.
Print Assumptions C06_touched.

Theorem C06_verdict : forall (HO : hops) (size bs : N) (ob : outboard HO) (wd : bool) (d : bytes HO) (ga : N),
  2 <= sp_blocks size bs ->
  grp_verdict HO wd ob d size bs ga = true <->
  chain_ok HO ob size bs ga /\ (wd = true -> leaf_ok HO d ob size bs ga).
Proof. exact grp_verdict_iff. Qed.
Print Assumptions C06_verdict.

(* membership in the output of the specification by the three predicates (wd = true: with data) *)
Theorem C06_data_member : forall (HO : hops) (size bs : N) (q : ranges) (ob : outboard HO),
  size <= 2 ^ 63 ->
  forall (wd : bool) (d : bytes HO) (a e : N), 2 <= sp_blocks size bs ->
  In (a, e) (val_top HO wd ob d size bs q) <->
  exists ga, ga < sp_blocks size bs /\ a = grp_start bs ga /\ e = grp_end size bs ga /\
             touched q size bs ga /\ chain_ok HO ob size bs ga /\ (wd = true -> leaf_ok HO d ob size bs ga).
Proof. exact val_top_member. Qed.
Print Assumptions C06_data_member.

(* a single group: reported iff the data hashes to the root, whatever the query *)
Theorem C06_data_single : forall (HO : hops) (size bs : N) (q : ranges) (ob : outboard HO),
  ob_tree ob = mkTree size bs ->
  forall d : bytes HO, blen HO d = size -> sp_blocks size bs = 1 ->
  valid_ranges HO ob d q =
  ((if bytes_eqb HO (hash_subtree HO 0 d true) (ob_root ob) then [(0, chunks size)] else []), Ok tt).
Proof. exact data_single. Qed.
Print Assumptions C06_data_single.

(* under the hash assumptions heq is equality *)
Theorem C06_heq : forall (HO : hops), hash_ok HO -> forall x y : hash HO, heq HO x y <-> x = y.
Proof. exact bytes_eqb_eq. Qed.
Print Assumptions C06_heq.

(* chain_walk (the boolean walk used by grp_verdict) against the two predicates *)
Theorem C06_chain_walk : forall (HO : hops) (ob : outboard HO) p owed ir h,
  chain_walk HO ob p owed ir = Some h <-> chain_prop HO ob p owed ir /\ owed_walk HO ob p (Some owed) = Some h.
Proof. exact chain_walk_iff. Qed.
Print Assumptions C06_chain_walk.

(* ---- 2. what is reported is the blob ---- *)
Theorem C06_reported_is_true : forall (HO : hops), hash_ok HO ->
  forall (data : bytes HO) (bs : N) (ob : outboard HO),
  blen HO data <= 2 ^ 63 -> bs <= 10 -> ob_root ob = root_hash HO data ->
  forall q : ranges, wf_ranges q = true ->
  ob_tree ob = mkTree (blen HO data) bs -> loads_ok HO ob (blen HO data) bs ->
  forall (d : bytes HO) (a e : N), blen HO d = blen HO data -> 2 <= sp_blocks (blen HO data) bs ->
  In (a, e) (fst (valid_ranges HO ob d q)) ->
  chunk_bytes HO d a e = chunk_bytes HO data a e /\
  exists ga, ga < sp_blocks (blen HO data) bs /\ a = grp_start bs ga /\ e = grp_end (blen HO data) bs ga /\
             path_true HO data bs ob ga.
Proof. exact reported_is_true. Qed.
Print Assumptions C06_reported_is_true.

Theorem C06_chain_ok_true : forall (HO : hops), hash_ok HO ->
  forall (data : bytes HO) (bs : N) (ob : outboard HO),
  blen HO data <= 2 ^ 63 -> bs <= 10 -> ob_root ob = root_hash HO data ->
  forall ga, ga < sp_blocks (blen HO data) bs ->
  chain_ok HO ob (blen HO data) bs ga -> path_true HO data bs ob ga.
Proof. exact chain_ok_true. Qed.
Print Assumptions C06_chain_ok_true.

Theorem C06_leaf_ok_true : forall (HO : hops), hash_ok HO ->
  forall (data : bytes HO) (bs : N) (ob : outboard HO),
  blen HO data <= 2 ^ 63 -> bs <= 10 -> ob_root ob = root_hash HO data ->
  forall (d : bytes HO) ga, ga < sp_blocks (blen HO data) bs -> blen HO d = blen HO data ->
  chain_ok HO ob (blen HO data) bs ga -> leaf_ok HO d ob (blen HO data) bs ga ->
  chunk_bytes HO d (grp_start bs ga) (grp_end (blen HO data) bs ga)
  = chunk_bytes HO data (grp_start bs ga) (grp_end (blen HO data) bs ga).
Proof. exact leaf_ok_true. Qed.
Print Assumptions C06_leaf_ok_true.

Theorem C06_single_reported_is_true : forall (HO : hops), hash_ok HO ->
  forall (data : bytes HO) (bs : N) (ob : outboard HO),
  blen HO data <= 2 ^ 63 -> bs <= 10 -> ob_root ob = root_hash HO data ->
  forall q : ranges, ob_tree ob = mkTree (blen HO data) bs ->
  forall d : bytes HO, blen HO d = blen HO data -> sp_blocks (blen HO data) bs = 1 ->
  fst (valid_ranges HO ob d q) <> [] -> d = data.
Proof. exact single_reported_is_true. Qed.
Print Assumptions C06_single_reported_is_true.

(* ---- 3. what is the blob and touched is reported ---- *)
Theorem C06_valid_is_reported : forall (HO : hops), hash_ok HO ->
  forall (data : bytes HO) (bs : N) (ob : outboard HO),
  blen HO data <= 2 ^ 63 -> bs <= 10 -> ob_root ob = root_hash HO data ->
  forall q : ranges, wf_ranges q = true ->
  ob_tree ob = mkTree (blen HO data) bs -> loads_ok HO ob (blen HO data) bs ->
  forall (d : bytes HO) (ga : N), blen HO d = blen HO data -> 2 <= sp_blocks (blen HO data) bs ->
  ga < sp_blocks (blen HO data) bs ->
  touched q (blen HO data) bs ga -> path_true HO data bs ob ga ->
  chunk_bytes HO d (grp_start bs ga) (grp_end (blen HO data) bs ga)
  = chunk_bytes HO data (grp_start bs ga) (grp_end (blen HO data) bs ga) ->
  In (grp_start bs ga, grp_end (blen HO data) bs ga) (fst (valid_ranges HO ob d q)).
Proof. exact valid_is_reported. Qed.
Print Assumptions C06_valid_is_reported.

(* an intact store: exactly the touched groups *)
Theorem C06_intact_complete : forall (HO : hops), hash_ok HO ->
  forall (data : bytes HO) (bs : N) (ob : outboard HO),
  blen HO data <= 2 ^ 63 -> bs <= 10 -> ob_root ob = root_hash HO data ->
  forall q : ranges, wf_ranges q = true ->
  ob_tree ob = mkTree (blen HO data) bs -> loads_ok HO ob (blen HO data) bs ->
  2 <= sp_blocks (blen HO data) bs ->
  (forall ga, ga < sp_blocks (blen HO data) bs -> path_true HO data bs ob ga) ->
  valid_ranges HO ob data q =
  (flat_map (fun ga => if touchedb q (blen HO data) bs ga
                       then [(grp_start bs ga, grp_end (blen HO data) bs ga)] else [])
            (chunk_range_list 0 (sp_blocks (blen HO data) bs)), Ok tt).
Proof. exact intact_complete. Qed.
Print Assumptions C06_intact_complete.

Theorem C06_single_intact : forall (HO : hops), hash_ok HO ->
  forall (data : bytes HO) (bs : N) (ob : outboard HO),
  blen HO data <= 2 ^ 63 -> ob_root ob = root_hash HO data ->
  forall q : ranges, ob_tree ob = mkTree (blen HO data) bs ->
  sp_blocks (blen HO data) bs = 1 ->
  valid_ranges HO ob data q = ([(0, chunks (blen HO data))], Ok tt).
Proof. exact single_valid_is_reported. Qed.
Print Assumptions C06_single_intact.

(* ---- 4. outboard only, and the fsm twins ---- *)
Theorem C06_outboard_spec : forall (HO : hops) (size bs : N) (q : ranges) (ob : outboard HO),
  size <= 2 ^ 63 -> bs <= 10 -> wf_ranges q = true ->
  ob_tree ob = mkTree size bs -> loads_ok HO ob size bs -> 2 <= sp_blocks size bs ->
  valid_outboard_ranges HO ob q = (val_top HO false ob [] size bs q, Ok tt).
Proof. exact outboard_exact. Qed.
Print Assumptions C06_outboard_spec.

Theorem C06_outboard_exact : forall (HO : hops) (size bs : N) (q : ranges) (ob : outboard HO),
  size <= 2 ^ 63 -> bs <= 10 -> wf_ranges q = true ->
  ob_tree ob = mkTree size bs -> loads_ok HO ob size bs -> 2 <= sp_blocks size bs ->
  valid_outboard_ranges HO ob q =
  (flat_map (fun ga => if touchedb q size bs ga && grp_verdict HO false ob [] size bs ga
                       then [(grp_start bs ga, grp_end size bs ga)] else [])
            (chunk_range_list 0 (sp_blocks size bs)), Ok tt).
Proof. exact outboard_exact_groups. Qed.
Print Assumptions C06_outboard_exact.

Theorem C06_outboard_single : forall (HO : hops) (size bs : N) (q : ranges) (ob : outboard HO),
  ob_tree ob = mkTree size bs -> sp_blocks size bs = 1 ->
  valid_outboard_ranges HO ob q = ([(0, chunks size)], Ok tt).
Proof. exact outboard_single. Qed.
Print Assumptions C06_outboard_single.

Theorem C06_outboard_reported_is_true : forall (HO : hops), hash_ok HO ->
  forall (data : bytes HO) (bs : N) (ob : outboard HO),
  blen HO data <= 2 ^ 63 -> bs <= 10 -> ob_root ob = root_hash HO data ->
  forall q : ranges, wf_ranges q = true ->
  ob_tree ob = mkTree (blen HO data) bs -> loads_ok HO ob (blen HO data) bs ->
  forall a e : N, 2 <= sp_blocks (blen HO data) bs ->
  In (a, e) (fst (valid_outboard_ranges HO ob q)) ->
  exists ga, ga < sp_blocks (blen HO data) bs /\ a = grp_start bs ga /\ e = grp_end (blen HO data) bs ga /\
             path_true HO data bs ob ga.
Proof. exact outboard_reported_is_true. Qed.
Print Assumptions C06_outboard_reported_is_true.

Theorem C06_outboard_valid_is_reported : forall (HO : hops), hash_ok HO ->
  forall (data : bytes HO) (bs : N) (ob : outboard HO),
  blen HO data <= 2 ^ 63 -> bs <= 10 -> ob_root ob = root_hash HO data ->
  forall q : ranges, wf_ranges q = true ->
  ob_tree ob = mkTree (blen HO data) bs -> loads_ok HO ob (blen HO data) bs ->
  forall ga : N, 2 <= sp_blocks (blen HO data) bs -> ga < sp_blocks (blen HO data) bs ->
  touched q (blen HO data) bs ga -> path_true HO data bs ob ga ->
  In (grp_start bs ga, grp_end (blen HO data) bs ga) (fst (valid_outboard_ranges HO ob q)).
Proof. exact outboard_valid_is_reported. Qed.
Print Assumptions C06_outboard_valid_is_reported.

Theorem C06_outboard_intact_complete : forall (HO : hops), hash_ok HO ->
  forall (data : bytes HO) (bs : N) (ob : outboard HO),
  blen HO data <= 2 ^ 63 -> bs <= 10 -> ob_root ob = root_hash HO data ->
  forall q : ranges, wf_ranges q = true ->
  ob_tree ob = mkTree (blen HO data) bs -> loads_ok HO ob (blen HO data) bs ->
  2 <= sp_blocks (blen HO data) bs ->
  (forall ga, ga < sp_blocks (blen HO data) bs -> path_true HO data bs ob ga) ->
  valid_outboard_ranges HO ob q =
  (flat_map (fun ga => if touchedb q (blen HO data) bs ga
                       then [(grp_start bs ga, grp_end (blen HO data) bs ga)] else [])
            (chunk_range_list 0 (sp_blocks (blen HO data) bs)), Ok tt).
Proof. exact outboard_intact_complete. Qed.
Print Assumptions C06_outboard_intact_complete.

Theorem C06_sync_eq_fsm : forall (HO : hops) (ob : outboard HO) (d : bytes HO) (q : ranges),
  (forall nd, load_fsm HO ob nd = load_sync HO ob nd) ->
  valid_ranges_fsm HO ob d q = valid_ranges HO ob d q.
Proof. exact valid_ranges_fsm_eq. Qed.
Print Assumptions C06_sync_eq_fsm.

Theorem C06_sync_eq_fsm_outboard : forall (HO : hops) (ob : outboard HO) (q : ranges),
  (forall nd, load_fsm HO ob nd = load_sync HO ob nd) ->
  valid_outboard_ranges_fsm HO ob q = valid_outboard_ranges HO ob q.
Proof. exact valid_outboard_ranges_fsm_eq. Qed.
Print Assumptions C06_sync_eq_fsm_outboard.

(* ======== Final composition (proofs in Proofs/FinalVal.v) ========
   created_store HO data bs ob (Props/C03.v, C03_created_store_def; C03_created_by_store: every store returned
   by a creation entry point; C07_converges: every fully delivered state of a decode history). *)
From BaoV Require Import Spec.NodeSpec Proofs.FinalStore Proofs.FinalVal.

(* the intact-store premises of C06_intact_complete / C06_outboard_intact_complete hold for a created store, so
   on the blob's own data both validators report exactly the touched groups (one group: the whole blob,
   whatever the query); the fsm validators return the same as the sync ones on such a store, for any data and query *)
Theorem C06_created_store_complete : forall (HO : hops), hash_ok HO ->
  forall (data : bytes HO) (bs : N) (ob : outboard HO),
  blen HO data <= 2 ^ 63 -> bs <= 10 -> created_store HO data bs ob ->
  forall q : ranges, wf_ranges q = true ->
  (loads_ok HO ob (blen HO data) bs /\ forall ga, path_true HO data bs ob ga) /\
  (2 <= sp_blocks (blen HO data) bs ->
     valid_ranges HO ob data q =
     (flat_map (fun ga => if touchedb q (blen HO data) bs ga
                          then [(grp_start bs ga, grp_end (blen HO data) bs ga)] else [])
               (chunk_range_list 0 (sp_blocks (blen HO data) bs)), Ok tt) /\
     valid_outboard_ranges HO ob q =
     (flat_map (fun ga => if touchedb q (blen HO data) bs ga
                          then [(grp_start bs ga, grp_end (blen HO data) bs ga)] else [])
               (chunk_range_list 0 (sp_blocks (blen HO data) bs)), Ok tt)) /\
  (sp_blocks (blen HO data) bs = 1 ->
     valid_ranges HO ob data q = ([(0, chunks (blen HO data))], Ok tt) /\
     valid_outboard_ranges HO ob q = ([(0, chunks (blen HO data))], Ok tt)) /\
  (forall (d : bytes HO) (q0 : ranges),
     valid_ranges_fsm HO ob d q0 = valid_ranges HO ob d q0 /\
     valid_outboard_ranges_fsm HO ob q0 = valid_outboard_ranges HO ob q0).
Proof. exact c06_created_store_complete. Qed.
Print Assumptions C06_created_store_complete.

(* C06_sync_eq_fsm with the premise restricted to the nodes of the tree (it holds for every pre-sized store:
   C07_sized_loads; the unrestricted premise fails for io-backed stores at nodes beyond the tree) *)
Theorem C06_sync_eq_fsm_tree : forall (HO : hops) (size bs : N), size <= 2 ^ 63 -> bs <= 10 ->
  forall ob : outboard HO, ob_tree ob = mkTree size bs ->
  (forall nd, In nd (sp_pre_nodes size bs) -> load_fsm HO ob nd = load_sync HO ob nd) ->
  forall (d : bytes HO) (q : ranges),
  valid_ranges_fsm HO ob d q = valid_ranges HO ob d q /\
  valid_outboard_ranges_fsm HO ob q = valid_outboard_ranges HO ob q.
Proof. exact c06_sync_eq_fsm_tree. Qed.
Print Assumptions C06_sync_eq_fsm_tree.

(* ======== Gap closure (proofs in Proofs/GapValFsmView.v, GapValFsm.v, GapValShort.v, GapValShortTop.v,
   GapValShortFsm.v, GapValWit.v) ========
   A. The fsm validators on ARBITRARY stores, stated on load_fsm itself.  No theorem below has a premise relating
      load_fsm to load_sync (C06_sync_eq_fsm, C06_sync_eq_fsm_tree and C06_created_store_complete need one; it
      fails for an io-backed outboard whose byte vector is shorter than (blocks - 1) * 64: load_sync returns
      Err UnexpectedEof there, load_fsm a zero pair).  The predicates are those of sections 1-4 with
        stored_pair_fsm ob nd        the pair load_fsm returns for node nd (None: no slot)
      in the place of stored_pair: chain_prop_fsm / owed_walk_fsm (walks), chain_ok_fsm, leaf_ok_fsm,
      grp_verdict_fsm, val_spec_fsm / val_top_fsm, path_true_fsm; loads_ok_fsm: no load_fsm of a node of the tree
      fails.  loads_ok_fsm holds for every io-backed store whatever the length of its byte vector
      (C06_fsm_loads_ok_io), for every pre-sized store (C06_fsm_loads_ok_sized) and for the empty outboard.
   B. The data validator on a data file of ANY length (sync and fsm), in particular shorter than the blob: exact
      output (recursive specification val_spec_e; group by group up to the first group whose bytes are not in the
      file), membership, soundness, completeness, single group; a longer file is read inside [0, size) only. *)
From BaoV Require Import Proofs.HistOb Proofs.GapValFsmView Proofs.GapValFsm Proofs.GapValShort Proofs.GapValShortTop
  Proofs.GapValShortFsm Proofs.GapValWit.

(* ---- A.0 the definitions, unfolded ---- *)
Theorem C06_fsm_stored_pair_def :
  forall (HO : hops) (ob : outboard HO) (nd : N),
  stored_pair_fsm HO ob nd = match load_fsm HO ob nd with Ok x => x | _ => None end.
Proof. reflexivity. Qed.
Print Assumptions C06_fsm_stored_pair_def.

Theorem C06_fsm_loads_ok_def :
  forall (HO : hops) (ob : outboard HO) (size bs : N),
  loads_ok_fsm HO ob size bs <-> (forall nd, In nd (sp_pre_nodes size bs) -> exists x, load_fsm HO ob nd = Ok x).
Proof. intros; reflexivity. Qed.
Print Assumptions C06_fsm_loads_ok_def.

Theorem C06_fsm_chain_prop_def :
  forall (HO : hops) (ob : outboard HO) (owed : hash HO) (ir : bool),
  (chain_prop_fsm HO ob [] owed ir <-> True) /\
  (forall nd rt rest,
     chain_prop_fsm HO ob ((nd, rt) :: rest) owed ir <->
     exists l r, stored_pair_fsm HO ob nd = Some (l, r) /\ heq HO (parent_cv HO l r ir) owed /\
                 chain_prop_fsm HO ob rest (if rt then r else l) false).
Proof. intros; split; intros; reflexivity. Qed.
Print Assumptions C06_fsm_chain_prop_def.

Theorem C06_fsm_owed_walk_def :
  forall (HO : hops) (ob : outboard HO) (owed : option (hash HO)),
  owed_walk_fsm HO ob [] owed = owed /\
  (forall nd rt rest,
     owed_walk_fsm HO ob ((nd, rt) :: rest) owed =
     owed_walk_fsm HO ob rest (option_map (pick HO rt) (stored_pair_fsm HO ob nd))).
Proof. intros; split; intros; reflexivity. Qed.
Print Assumptions C06_fsm_owed_walk_def.

Theorem C06_fsm_chain_ok_def :
  forall (HO : hops) (ob : outboard HO) (size bs ga : N),
  chain_ok_fsm HO ob size bs ga <-> chain_prop_fsm HO ob (top_path size bs ga) (ob_root ob) true.
Proof. intros; reflexivity. Qed.
Print Assumptions C06_fsm_chain_ok_def.

Theorem C06_fsm_leaf_ok_def :
  forall (HO : hops) (d : bytes HO) (ob : outboard HO) (size bs ga : N),
  leaf_ok_fsm HO d ob size bs ga <->
  exists h, owed_walk_fsm HO ob (top_path size bs ga) (Some (ob_root ob)) = Some h /\
    heq HO (hash_subtree HO (grp_start bs ga) (chunk_bytes HO d (grp_start bs ga) (grp_end size bs ga))
              (sp_blocks size bs =? 1)) h.
Proof. intros; reflexivity. Qed.
Print Assumptions C06_fsm_leaf_ok_def.

Theorem C06_fsm_path_true_def :
  forall (HO : hops) (data : bytes HO) (bs : N) (ob : outboard HO) (ga : N),
  path_true_fsm HO data bs ob ga <->
  (forall nd rt, In (nd, rt) (top_path (blen HO data) bs ga) -> stored_pair_fsm HO ob nd = Some (true_pair HO data nd)).
Proof. intros; reflexivity. Qed.
Print Assumptions C06_fsm_path_true_def.

Theorem C06_fsm_val_top_def :
  forall (HO : hops) (wd : bool) (ob : outboard HO) (d : bytes HO) (size bs : N) (q : ranges),
  val_top_fsm HO wd ob d size bs q =
  val_spec_fsm HO VFUEL wd ob d size bs (sel q size) 0 (sp_blocks size bs) (ob_root ob) true.
Proof. exact val_top_fsm_eq. Qed.
Print Assumptions C06_fsm_val_top_def.

(* one step of the recursive specification (C06_val_spec_step with stored_pair_fsm) *)
Theorem C06_fsm_val_spec_step :
  forall (HO : hops) (f : nat) (wd : bool) (ob : outboard HO) (d : bytes HO) (size bs : N) (Sel : N -> bool) (ga n : N) (owed : hash HO) (is_root : bool),
    val_spec_fsm HO (S f) wd ob d size bs Sel ga n owed is_root =
    (if negb (touchedn Sel size bs ga n)
     then []
     else
      if n <=? 1
      then leaf_rep HO wd d size bs ga owed is_root
      else
       match stored_pair_fsm HO ob (unshift bs (sid ga n)) with
       | Some (l, r) =>
           if negb (bytes_eqb HO (parent_cv HO l r is_root) owed)
           then []
           else
            if n <=? 2
            then
             (if touchedn Sel size bs ga 1 then leaf_rep HO wd d size bs ga l false else []) ++
             (if touchedn Sel size bs (ga + 1) 1 then leaf_rep HO wd d size bs (ga + 1) r false else [])
            else
             let half := capof n / 2 in
             val_spec_fsm HO f wd ob d size bs Sel ga half l false ++ val_spec_fsm HO f wd ob d size bs Sel (ga + half) (n - half) r false
       | None => []
       end).
Proof. exact val_spec_fsm_eq. Qed.
Print Assumptions C06_fsm_val_spec_step.

(* what load_fsm returns on an io-backed store (is_io k: k = PreIO or PostIO) at a node of the tree, whatever the
   length of the byte vector: no slot, or the slot if it is completely present, else the zero pair *)
Theorem C06_fsm_io_load :
  forall (HO : hops) (size bs : N),
    size <= 2 ^ 63 ->
    bs <= 10 ->
    forall (ob : outboard HO) (nd : N),
    is_io (ob_k ob) = true ->
    ob_tree ob = mkTree (size) (bs) ->
    In nd (sp_pre_nodes size bs) ->
    ob_offset HO ob nd = None /\ load_fsm HO ob nd = Ok None \/
    (exists o : N,
       ob_offset HO ob nd = Some o /\
       o < sp_blocks size bs - 1 /\
       load_fsm HO ob nd = Ok (Some (if o * 64 + 64 <=? blen HO (ob_data ob) then parse_pair HO (slice HO (o * 64) 64 (ob_data ob)) else zero_pair HO))).
Proof. exact io_load_fsm. Qed.
Print Assumptions C06_fsm_io_load.

Theorem C06_is_io_def :
  forall k : ob_kind, is_io k = true <-> k = PreIO \/ k = PostIO.
Proof. intro k; destruct k; cbn; split; intros; try discriminate; auto; destruct H; discriminate. Qed.
Print Assumptions C06_is_io_def.

(* ---- A.1 the loads premise holds unconditionally for io-backed stores, and for pre-sized stores ---- *)
Theorem C06_fsm_loads_ok_io :
  forall (HO : hops) (size bs : N),
    size <= 2 ^ 63 ->
    bs <= 10 -> forall ob : outboard HO, ob_k ob = PreIO \/ ob_k ob = PostIO -> ob_tree ob = mkTree (size) (bs) -> loads_ok_fsm HO ob size bs.
Proof. exact loads_ok_fsm_io. Qed.
Print Assumptions C06_fsm_loads_ok_io.

Theorem C06_fsm_loads_ok_sized :
  forall (HO : hops) (size bs : N), size <= 2 ^ 63 -> bs <= 10 -> forall ob : outboard HO, ob_sized HO ob size bs -> loads_ok_fsm HO ob size bs.
Proof. exact loads_ok_fsm_sized. Qed.
Print Assumptions C06_fsm_loads_ok_sized.

Theorem C06_fsm_loads_ok_empty :
  forall (HO : hops) (size bs : N) (ob : outboard HO), ob_k ob = EmptyOb -> loads_ok_fsm HO ob size bs.
Proof. exact loads_ok_fsm_empty. Qed.
Print Assumptions C06_fsm_loads_ok_empty.

(* ---- A.2 exact output ---- *)
Theorem C06_fsm_data_spec :
  forall (HO : hops) (size bs : N) (ob : outboard HO),
    size <= 2 ^ 63 ->
    bs <= 10 ->
    ob_tree ob = mkTree (size) (bs) ->
    loads_ok_fsm HO ob size bs ->
    forall q : ranges,
    wf_ranges q = true ->
    forall d : bytes HO, blen HO d = size -> 2 <= sp_blocks size bs -> valid_ranges_fsm HO ob d q = (val_top_fsm HO true ob d size bs q, Ok tt).
Proof. exact fsm_data_spec. Qed.
Print Assumptions C06_fsm_data_spec.

(* the reported list, in increasing order of the groups *)
Theorem C06_fsm_data_exact :
  forall (HO : hops) (size bs : N) (ob : outboard HO),
    size <= 2 ^ 63 ->
    bs <= 10 ->
    ob_tree ob = mkTree (size) (bs) ->
    loads_ok_fsm HO ob size bs ->
    forall q : ranges,
    wf_ranges q = true ->
    forall d : bytes HO,
    blen HO d = size ->
    2 <= sp_blocks size bs ->
    valid_ranges_fsm HO ob d q =
    (flat_map (fun ga : N => if touchedb q size bs ga && grp_verdict_fsm HO true ob d size bs ga then [(grp_start bs ga, grp_end size bs ga)] else [])
       (chunk_range_list 0 (sp_blocks size bs)), Ok tt).
Proof. exact fsm_data_exact_groups. Qed.
Print Assumptions C06_fsm_data_exact.

Theorem C06_fsm_verdict :
  forall (HO : hops) (size bs : N) (ob : outboard HO),
    size <= 2 ^ 63 ->
    bs <= 10 ->
    ob_tree ob = mkTree (size) (bs) ->
    forall (wd : bool) (d : bytes HO) (ga : N),
    2 <= sp_blocks size bs ->
    grp_verdict_fsm HO wd ob d size bs ga = true <-> chain_ok_fsm HO ob size bs ga /\ (wd = true -> leaf_ok_fsm HO d ob size bs ga).
Proof. exact fsm_grp_verdict_iff. Qed.
Print Assumptions C06_fsm_verdict.

Theorem C06_fsm_spec_member :
  forall (HO : hops) (size bs : N) (ob : outboard HO),
    size <= 2 ^ 63 ->
    bs <= 10 ->
    ob_tree ob = mkTree (size) (bs) ->
    forall (q : ranges) (wd : bool) (d : bytes HO) (a e : N),
    2 <= sp_blocks size bs ->
    In (a, e) (val_top_fsm HO wd ob d size bs q) <->
    (exists ga : N,
       ga < sp_blocks size bs /\
       a = grp_start bs ga /\
       e = grp_end size bs ga /\ touched q size bs ga /\ chain_ok_fsm HO ob size bs ga /\ (wd = true -> leaf_ok_fsm HO d ob size bs ga)).
Proof. exact fsm_val_top_member. Qed.
Print Assumptions C06_fsm_spec_member.

(* membership in the output of the validator itself *)
Theorem C06_fsm_data_member :
  forall (HO : hops) (size bs : N) (ob : outboard HO),
    size <= 2 ^ 63 ->
    bs <= 10 ->
    ob_tree ob = mkTree (size) (bs) ->
    loads_ok_fsm HO ob size bs ->
    forall q : ranges,
    wf_ranges q = true ->
    forall (d : bytes HO) (a e : N),
    blen HO d = size ->
    2 <= sp_blocks size bs ->
    In (a, e) (fst (valid_ranges_fsm HO ob d q)) <->
    (exists ga : N,
       ga < sp_blocks size bs /\
       a = grp_start bs ga /\ e = grp_end size bs ga /\ touched q size bs ga /\ chain_ok_fsm HO ob size bs ga /\ leaf_ok_fsm HO d ob size bs ga).
Proof. exact fsm_data_member. Qed.
Print Assumptions C06_fsm_data_member.

(* a single group: no load at all *)
Theorem C06_fsm_data_single :
  forall (HO : hops) (size bs : N) (q : ranges) (ob : outboard HO),
    ob_tree ob = mkTree (size) (bs) ->
    forall d : bytes HO,
    blen HO d = size ->
    sp_blocks size bs = 1 -> valid_ranges_fsm HO ob d q = (if bytes_eqb HO (hash_subtree HO 0 d true) (ob_root ob) then [(0, chunks size)] else [], Ok tt).
Proof. exact fsm_data_single. Qed.
Print Assumptions C06_fsm_data_single.

(* ---- A.3 what is reported is the blob; what is the blob and touched is reported ---- *)
Theorem C06_fsm_reported_is_true :
  forall HO : hops,
    hash_ok HO ->
    forall (data : bytes HO) (bs : N) (ob : outboard HO),
    blen HO data <= 2 ^ 63 ->
    bs <= 10 ->
    ob_root ob = root_hash HO data ->
    ob_tree ob = mkTree (blen HO data) (bs) ->
    forall q : ranges,
    wf_ranges q = true ->
    loads_ok_fsm HO ob (blen HO data) bs ->
    forall (d : bytes HO) (a e : N),
    blen HO d = blen HO data ->
    2 <= sp_blocks (blen HO data) bs ->
    In (a, e) (fst (valid_ranges_fsm HO ob d q)) ->
    chunk_bytes HO d a e = chunk_bytes HO data a e /\
    (exists ga : N, ga < sp_blocks (blen HO data) bs /\ a = grp_start bs ga /\ e = grp_end (blen HO data) bs ga /\ path_true_fsm HO data bs ob ga).
Proof. exact fsm_reported_is_true. Qed.
Print Assumptions C06_fsm_reported_is_true.

Theorem C06_fsm_chain_ok_true :
  forall HO : hops,
    hash_ok HO ->
    forall (data : bytes HO) (bs : N) (ob : outboard HO),
    blen HO data <= 2 ^ 63 ->
    bs <= 10 ->
    ob_root ob = root_hash HO data ->
    ob_tree ob = mkTree (blen HO data) (bs) ->
    forall ga : N, ga < sp_blocks (blen HO data) bs -> chain_ok_fsm HO ob (blen HO data) bs ga -> path_true_fsm HO data bs ob ga.
Proof. exact fsm_chain_ok_true. Qed.
Print Assumptions C06_fsm_chain_ok_true.

Theorem C06_fsm_leaf_ok_true :
  forall HO : hops,
    hash_ok HO ->
    forall (data : bytes HO) (bs : N) (ob : outboard HO),
    blen HO data <= 2 ^ 63 ->
    bs <= 10 ->
    ob_root ob = root_hash HO data ->
    ob_tree ob = mkTree (blen HO data) (bs) ->
    forall (d : bytes HO) (ga : N),
    ga < sp_blocks (blen HO data) bs ->
    blen HO d = blen HO data ->
    chain_ok_fsm HO ob (blen HO data) bs ga ->
    leaf_ok_fsm HO d ob (blen HO data) bs ga ->
    chunk_bytes HO d (grp_start bs ga) (grp_end (blen HO data) bs ga) = chunk_bytes HO data (grp_start bs ga) (grp_end (blen HO data) bs ga).
Proof. exact fsm_leaf_ok_true. Qed.
Print Assumptions C06_fsm_leaf_ok_true.

Theorem C06_fsm_single_reported_is_true :
  forall HO : hops,
    hash_ok HO ->
    forall (data : bytes HO) (bs : N) (ob : outboard HO),
    blen HO data <= 2 ^ 63 ->
    bs <= 10 ->
    ob_root ob = root_hash HO data ->
    ob_tree ob = mkTree (blen HO data) (bs) ->
    forall (q : ranges) (d : bytes HO), blen HO d = blen HO data -> sp_blocks (blen HO data) bs = 1 -> fst (valid_ranges_fsm HO ob d q) <> [] -> d = data.
Proof. exact fsm_single_reported_is_true. Qed.
Print Assumptions C06_fsm_single_reported_is_true.

Theorem C06_fsm_valid_is_reported :
  forall HO : hops,
    hash_ok HO ->
    forall (data : bytes HO) (bs : N) (ob : outboard HO),
    blen HO data <= 2 ^ 63 ->
    bs <= 10 ->
    ob_root ob = root_hash HO data ->
    ob_tree ob = mkTree (blen HO data) (bs) ->
    forall q : ranges,
    wf_ranges q = true ->
    loads_ok_fsm HO ob (blen HO data) bs ->
    forall (d : bytes HO) (ga : N),
    blen HO d = blen HO data ->
    2 <= sp_blocks (blen HO data) bs ->
    ga < sp_blocks (blen HO data) bs ->
    touched q (blen HO data) bs ga ->
    path_true_fsm HO data bs ob ga ->
    chunk_bytes HO d (grp_start bs ga) (grp_end (blen HO data) bs ga) = chunk_bytes HO data (grp_start bs ga) (grp_end (blen HO data) bs ga) ->
    In (grp_start bs ga, grp_end (blen HO data) bs ga) (fst (valid_ranges_fsm HO ob d q)).
Proof. exact fsm_valid_is_reported. Qed.
Print Assumptions C06_fsm_valid_is_reported.

Theorem C06_fsm_intact_complete :
  forall HO : hops,
    hash_ok HO ->
    forall (data : bytes HO) (bs : N) (ob : outboard HO),
    blen HO data <= 2 ^ 63 ->
    bs <= 10 ->
    ob_root ob = root_hash HO data ->
    ob_tree ob = mkTree (blen HO data) (bs) ->
    forall q : ranges,
    wf_ranges q = true ->
    loads_ok_fsm HO ob (blen HO data) bs ->
    2 <= sp_blocks (blen HO data) bs ->
    (forall ga : N, ga < sp_blocks (blen HO data) bs -> path_true_fsm HO data bs ob ga) ->
    valid_ranges_fsm HO ob data q =
    (flat_map (fun ga : N => if touchedb q (blen HO data) bs ga then [(grp_start bs ga, grp_end (blen HO data) bs ga)] else [])
       (chunk_range_list 0 (sp_blocks (blen HO data) bs)), Ok tt).
Proof. exact fsm_intact_complete. Qed.
Print Assumptions C06_fsm_intact_complete.

Theorem C06_fsm_single_intact :
  forall HO : hops,
    hash_ok HO ->
    forall (data : bytes HO) (bs : N) (ob : outboard HO),
    blen HO data <= 2 ^ 63 ->
    ob_root ob = root_hash HO data ->
    ob_tree ob = mkTree (blen HO data) (bs) ->
    forall q : ranges, sp_blocks (blen HO data) bs = 1 -> valid_ranges_fsm HO ob data q = ([(0, chunks (blen HO data))], Ok tt).
Proof. exact fsm_single_valid_is_reported. Qed.
Print Assumptions C06_fsm_single_intact.

(* ---- A.4 outboard only ---- *)
Theorem C06_fsm_outboard_spec :
  forall (HO : hops) (size bs : N) (ob : outboard HO),
    size <= 2 ^ 63 ->
    bs <= 10 ->
    ob_tree ob = mkTree (size) (bs) ->
    loads_ok_fsm HO ob size bs ->
    forall q : ranges, wf_ranges q = true -> 2 <= sp_blocks size bs -> valid_outboard_ranges_fsm HO ob q = (val_top_fsm HO false ob [] size bs q, Ok tt).
Proof. exact fsm_outboard_spec. Qed.
Print Assumptions C06_fsm_outboard_spec.

Theorem C06_fsm_outboard_exact :
  forall (HO : hops) (size bs : N) (ob : outboard HO),
    size <= 2 ^ 63 ->
    bs <= 10 ->
    ob_tree ob = mkTree (size) (bs) ->
    loads_ok_fsm HO ob size bs ->
    forall q : ranges,
    wf_ranges q = true ->
    2 <= sp_blocks size bs ->
    valid_outboard_ranges_fsm HO ob q =
    (flat_map (fun ga : N => if touchedb q size bs ga && grp_verdict_fsm HO false ob [] size bs ga then [(grp_start bs ga, grp_end size bs ga)] else [])
       (chunk_range_list 0 (sp_blocks size bs)), Ok tt).
Proof. exact fsm_outboard_exact_groups. Qed.
Print Assumptions C06_fsm_outboard_exact.

Theorem C06_fsm_outboard_member :
  forall (HO : hops) (size bs : N) (ob : outboard HO),
    size <= 2 ^ 63 ->
    bs <= 10 ->
    ob_tree ob = mkTree (size) (bs) ->
    loads_ok_fsm HO ob size bs ->
    forall q : ranges,
    wf_ranges q = true ->
    forall a e : N,
    2 <= sp_blocks size bs ->
    In (a, e) (fst (valid_outboard_ranges_fsm HO ob q)) <->
    (exists ga : N, ga < sp_blocks size bs /\ a = grp_start bs ga /\ e = grp_end size bs ga /\ touched q size bs ga /\ chain_ok_fsm HO ob size bs ga).
Proof. exact fsm_outboard_member. Qed.
Print Assumptions C06_fsm_outboard_member.

Theorem C06_fsm_outboard_single :
  forall (HO : hops) (size bs : N) (q : ranges) (ob : outboard HO),
    ob_tree ob = mkTree (size) (bs) -> sp_blocks size bs = 1 -> valid_outboard_ranges_fsm HO ob q = ([(0, chunks size)], Ok tt).
Proof. exact fsm_outboard_single. Qed.
Print Assumptions C06_fsm_outboard_single.

Theorem C06_fsm_outboard_reported_is_true :
  forall HO : hops,
    hash_ok HO ->
    forall (data : bytes HO) (bs : N) (ob : outboard HO),
    blen HO data <= 2 ^ 63 ->
    bs <= 10 ->
    ob_root ob = root_hash HO data ->
    ob_tree ob = mkTree (blen HO data) (bs) ->
    forall q : ranges,
    wf_ranges q = true ->
    loads_ok_fsm HO ob (blen HO data) bs ->
    forall a e : N,
    2 <= sp_blocks (blen HO data) bs ->
    In (a, e) (fst (valid_outboard_ranges_fsm HO ob q)) ->
    exists ga : N, ga < sp_blocks (blen HO data) bs /\ a = grp_start bs ga /\ e = grp_end (blen HO data) bs ga /\ path_true_fsm HO data bs ob ga.
Proof. exact fsm_outboard_reported_is_true. Qed.
Print Assumptions C06_fsm_outboard_reported_is_true.

Theorem C06_fsm_outboard_valid_is_reported :
  forall HO : hops,
    hash_ok HO ->
    forall (data : bytes HO) (bs : N) (ob : outboard HO),
    blen HO data <= 2 ^ 63 ->
    bs <= 10 ->
    ob_root ob = root_hash HO data ->
    ob_tree ob = mkTree (blen HO data) (bs) ->
    forall q : ranges,
    wf_ranges q = true ->
    loads_ok_fsm HO ob (blen HO data) bs ->
    forall ga : N,
    2 <= sp_blocks (blen HO data) bs ->
    ga < sp_blocks (blen HO data) bs ->
    touched q (blen HO data) bs ga ->
    path_true_fsm HO data bs ob ga -> In (grp_start bs ga, grp_end (blen HO data) bs ga) (fst (valid_outboard_ranges_fsm HO ob q)).
Proof. exact fsm_outboard_valid_is_reported. Qed.
Print Assumptions C06_fsm_outboard_valid_is_reported.

Theorem C06_fsm_outboard_intact_complete :
  forall HO : hops,
    hash_ok HO ->
    forall (data : bytes HO) (bs : N) (ob : outboard HO),
    blen HO data <= 2 ^ 63 ->
    bs <= 10 ->
    ob_root ob = root_hash HO data ->
    ob_tree ob = mkTree (blen HO data) (bs) ->
    forall q : ranges,
    wf_ranges q = true ->
    loads_ok_fsm HO ob (blen HO data) bs ->
    2 <= sp_blocks (blen HO data) bs ->
    (forall ga : N, ga < sp_blocks (blen HO data) bs -> path_true_fsm HO data bs ob ga) ->
    valid_outboard_ranges_fsm HO ob q =
    (flat_map (fun ga : N => if touchedb q (blen HO data) bs ga then [(grp_start bs ga, grp_end (blen HO data) bs ga)] else [])
       (chunk_range_list 0 (sp_blocks (blen HO data) bs)), Ok tt).
Proof. exact fsm_outboard_intact_complete. Qed.
Print Assumptions C06_fsm_outboard_intact_complete.

(* ---- A.5 how A is proved: [fsm_view HO ob] is the store as the fsm loader sees it (an io-backed outboard: the
   complete 64-byte slots of its byte vector followed by zero bytes up to (blocks - 1) * 64; other kinds: ob itself).
   The fsm validators on ob are the sync validators on the view, for every store, data file and query ---- *)
Theorem C06_fsm_view_def :
  forall (HO : hops) (ob : outboard HO),
  fsm_view HO ob =
  if is_io (ob_k ob)
  then mkOb (ob_k ob) (ob_root ob) (ob_tree ob)
            (take HO ((blocks (ob_tree ob) - 1) * 64)
               (take HO (blen HO (ob_data ob) / 64 * 64) (ob_data ob) ++ zeros HO (N.to_nat ((blocks (ob_tree ob) - 1) * 64))))
  else ob.
Proof. reflexivity. Qed.
Print Assumptions C06_fsm_view_def.

Theorem C06_fsm_view_stored_pair :
  forall (HO : hops) (size bs : N),
    size <= 2 ^ 63 ->
    bs <= 10 ->
    forall (ob : outboard HO) (nd : N),
    ob_tree ob = mkTree (size) (bs) -> In nd (sp_pre_nodes size bs) -> stored_pair HO (fsm_view HO ob) nd = stored_pair_fsm HO ob nd.
Proof. exact view_stored_pair. Qed.
Print Assumptions C06_fsm_view_stored_pair.

Theorem C06_fsm_view_data :
  forall (HO : hops) (size bs : N),
    size <= 2 ^ 63 ->
    bs <= 10 ->
    forall ob : outboard HO,
    ob_tree ob = mkTree (size) (bs) -> forall (d : bytes HO) (q : ranges), valid_ranges_fsm HO ob d q = valid_ranges HO (fsm_view HO ob) d q.
Proof. exact valid_ranges_fsm_view. Qed.
Print Assumptions C06_fsm_view_data.

Theorem C06_fsm_view_outboard :
  forall (HO : hops) (size bs : N),
    size <= 2 ^ 63 ->
    bs <= 10 ->
    forall ob : outboard HO,
    ob_tree ob = mkTree (size) (bs) -> forall q : ranges, valid_outboard_ranges_fsm HO ob q = valid_outboard_ranges HO (fsm_view HO ob) q.
Proof. exact valid_outboard_ranges_fsm_view. Qed.
Print Assumptions C06_fsm_view_outboard.

(* non-vacuity: a truncated io-backed outboard (5 groups, 3 of 4 slots complete): load_sync fails inside the tree
   (so loads_ok and every "load_fsm = load_sync" premise fail), the sync validators stop with UnexpectedEof, loads_ok_fsm
   holds and the fsm validators report one group more *)
Theorem C06_fsm_nonvacuous :
  exists (HO : hops) (data : bytes HO) (bs : N) (ob : outboard HO) (q : ranges),
      hash_ok HO /\
      blen HO data <= 2 ^ 63 /\
      bs <= 10 /\
      ob_root ob = root_hash HO data /\
      wf_ranges q = true /\
      ob_tree ob = mkTree (blen HO data) (bs) /\
      ob_k ob = PreIO /\
      2 <= sp_blocks (blen HO data) bs /\
      blen HO (ob_data ob) < (sp_blocks (blen HO data) bs - 1) * 64 /\
      (exists nd : N, In nd (sp_pre_nodes (blen HO data) bs) /\ load_sync HO ob nd = Err KUnexpectedEof /\ load_fsm HO ob nd = Ok (Some (zero_pair HO))) /\
      ~ loads_ok HO ob (blen HO data) bs /\
      loads_ok_fsm HO ob (blen HO data) bs /\
      valid_ranges HO ob data q = ([(0, 1); (1, 2)], Err KUnexpectedEof) /\
      valid_ranges_fsm HO ob data q = ([(0, 1); (1, 2); (4, 5)], Ok tt) /\
      valid_outboard_ranges HO ob q = ([(0, 1); (1, 2)], Err KUnexpectedEof) /\
      valid_outboard_ranges_fsm HO ob q = ([(0, 1); (1, 2); (4, 5)], Ok tt) /\
      In (4, 5) (fst (valid_ranges_fsm HO ob data q)) /\
      touched q (blen HO data) bs 4 /\
      path_true_fsm HO data bs ob 4 /\
      chain_ok_fsm HO ob (blen HO data) bs 4 /\ leaf_ok_fsm HO data ob (blen HO data) bs 4 /\ ~ chain_ok_fsm HO ob (blen HO data) bs 2.
Proof. exact gapA_fsm_nonvacuous. Qed.
Print Assumptions C06_fsm_nonvacuous.

Theorem C06_fsm_intact_nonvacuous :
  exists (HO : hops) (data : bytes HO) (bs : N) (ob : outboard HO) (q : ranges),
      hash_ok HO /\
      blen HO data <= 2 ^ 63 /\
      bs <= 10 /\
      ob_root ob = root_hash HO data /\
      wf_ranges q = true /\
      ob_tree ob = mkTree (blen HO data) (bs) /\
      loads_ok_fsm HO ob (blen HO data) bs /\
      2 <= sp_blocks (blen HO data) bs /\
      (forall ga : N, ga < sp_blocks (blen HO data) bs -> path_true_fsm HO data bs ob ga) /\ valid_ranges_fsm HO ob data q = ([(3, 4)], Ok tt).
Proof. exact gapA_fsm_intact_nonvacuous. Qed.
Print Assumptions C06_fsm_intact_nonvacuous.

Theorem C06_fsm_single_nonvacuous :
  exists (HO : hops) (size bs : N) (q : ranges) (ob : outboard HO) (d : bytes HO),
      ob_tree ob = mkTree (size) (bs) /\
      blen HO d = size /\ sp_blocks size bs = 1 /\ ob_k ob = PreIO /\ valid_ranges_fsm HO ob d q = ([(0, 1)], Ok tt).
Proof. exact gapA_fsm_single_nonvacuous. Qed.
Print Assumptions C06_fsm_single_nonvacuous.

(* ---- B.0 definitions ---- *)
(* end byte of chunk group ga *)
Theorem C06_grp_bend_def :
  forall size bs ga : N, grp_bend size bs ga = N.min ((ga + 1) * 2 ^ bs * 1024) size.
Proof. reflexivity. Qed.
Print Assumptions C06_grp_bend_def.

(* x then y: an error in x stops *)
Theorem C06_vseq_def :
  forall (xs ys : list (N * N)) (u : unit) (k : io_kind) (r : res io_kind unit),
  vseq (xs, Ok u) (ys, r) = (xs ++ ys, r) /\ vseq (xs, Err k) (ys, r) = (xs, Err k) /\ vseq (xs, Panic) (ys, r) = (xs, Panic).
Proof. intros; repeat split; reflexivity. Qed.
Print Assumptions C06_vseq_def.

(* what a group reports, with the read check *)
Theorem C06_leaf_rep_e_def :
  forall (HO : hops) (wd : bool) (d : bytes HO) (size bs ga : N) (owed : hash HO) (is_root : bool),
  leaf_rep_e HO wd d size bs ga owed is_root =
  if wd && negb (grp_bend size bs ga <=? blen HO d) then ([], Err KUnexpectedEof)
  else (leaf_rep HO wd (take HO size d) size bs ga owed is_root, Ok tt).
Proof. reflexivity. Qed.
Print Assumptions C06_leaf_rep_e_def.

(* the recursive specification with the read check: one step *)
Theorem C06_val_spec_e_step :
  forall (HO : hops) (f : nat) (wd : bool) (ob : outboard HO) (d : bytes HO) (size bs : N) (Sel : N -> bool) (ga n : N) (owed : hash HO) (is_root : bool),
    val_spec_e HO (S f) wd ob d size bs Sel ga n owed is_root =
    (if negb (touchedn Sel size bs ga n)
     then vnil
     else
      if n <=? 1
      then leaf_rep_e HO wd d size bs ga owed is_root
      else
       match stored_pair HO ob (unshift bs (sid ga n)) with
       | Some (l, r) =>
           if negb (bytes_eqb HO (parent_cv HO l r is_root) owed)
           then vnil
           else
            if n <=? 2
            then
             vseq (if touchedn Sel size bs ga 1 then leaf_rep_e HO wd d size bs ga l false else vnil)
               (if touchedn Sel size bs (ga + 1) 1 then leaf_rep_e HO wd d size bs (ga + 1) r false else vnil)
            else
             let half := capof n / 2 in
             vseq (val_spec_e HO f wd ob d size bs Sel ga half l false) (val_spec_e HO f wd ob d size bs Sel (ga + half) (n - half) r false)
       | None => vnil
       end).
Proof. exact val_spec_e_eq. Qed.
Print Assumptions C06_val_spec_e_step.

Theorem C06_val_top_e_def :
  forall (HO : hops) (wd : bool) (ob : outboard HO) (d : bytes HO) (size bs : N) (q : ranges),
  val_top_e HO wd ob d size bs q =
  val_spec_e HO VFUEL wd ob d size bs (sel q size) 0 (sp_blocks size bs) (ob_root ob) true.
Proof. exact val_top_e_eq. Qed.
Print Assumptions C06_val_top_e_def.

(* group ga stops the validator *)
Theorem C06_grp_eof_def :
  forall (HO : hops) (ob : outboard HO) (d : bytes HO) (size bs : N) (q : ranges) (ga : N),
  grp_eof HO ob d size bs q ga =
  touchedb q size bs ga && grp_verdict HO false ob [] size bs ga && negb (grp_bend size bs ga <=? blen HO d).
Proof. reflexivity. Qed.
Print Assumptions C06_grp_eof_def.

(* what group ga reports when it can be read (the item of C06_data_exact on the first size bytes of d) *)
Theorem C06_grp_rep_def :
  forall (HO : hops) (ob : outboard HO) (d : bytes HO) (size bs : N) (q : ranges) (ga : N),
  grp_rep HO ob d size bs q ga =
  if touchedb q size bs ga && grp_verdict HO true ob (take HO size d) size bs ga
  then [(grp_start bs ga, grp_end size bs ga)] else [].
Proof. reflexivity. Qed.
Print Assumptions C06_grp_rep_def.

(* ---- B.1 exact output for a data file of any length ---- *)
Theorem C06_short_data_spec :
  forall (HO : hops) (size bs : N) (q : ranges) (ob : outboard HO),
    size <= 2 ^ 63 ->
    bs <= 10 ->
    wf_ranges q = true ->
    ob_tree ob = mkTree (size) (bs) ->
    loads_ok HO ob size bs -> forall d : bytes HO, 2 <= sp_blocks size bs -> valid_ranges HO ob d q = val_top_e HO true ob d size bs q.
Proof. exact short_data_spec. Qed.
Print Assumptions C06_short_data_spec.

(* the groups before the first stopping group (find: first group, in increasing order, with grp_eof) *)
Theorem C06_short_data_exact :
  forall (HO : hops) (size bs : N) (q : ranges) (ob : outboard HO),
    size <= 2 ^ 63 ->
    bs <= 10 ->
    wf_ranges q = true ->
    ob_tree ob = mkTree (size) (bs) ->
    loads_ok HO ob size bs ->
    forall d : bytes HO,
    2 <= sp_blocks size bs ->
    valid_ranges HO ob d q =
    match find (grp_eof HO ob d size bs q) (chunk_range_list 0 (sp_blocks size bs)) with
    | Some ga => (flat_map (grp_rep HO ob d size bs q) (chunk_range_list 0 ga), Err KUnexpectedEof)
    | None => (flat_map (grp_rep HO ob d size bs q) (chunk_range_list 0 (sp_blocks size bs)), Ok tt)
    end.
Proof. exact short_data_find. Qed.
Print Assumptions C06_short_data_exact.

(* a file not longer than the blob (a partially written data file): the items of C06_data_exact on d itself *)
Theorem C06_short_data_exact_le :
  forall (HO : hops) (size bs : N) (q : ranges) (ob : outboard HO),
    size <= 2 ^ 63 ->
    bs <= 10 ->
    wf_ranges q = true ->
    ob_tree ob = mkTree (size) (bs) ->
    loads_ok HO ob size bs ->
    forall d : bytes HO,
    blen HO d <= size ->
    2 <= sp_blocks size bs ->
    valid_ranges HO ob d q =
    match find (grp_eof HO ob d size bs q) (chunk_range_list 0 (sp_blocks size bs)) with
    | Some ga =>
        (flat_map (fun ga0 : N => if touchedb q size bs ga0 && grp_verdict HO true ob d size bs ga0 then [(grp_start bs ga0, grp_end size bs ga0)] else [])
           (chunk_range_list 0 ga), Err KUnexpectedEof)
    | None =>
        (flat_map (fun ga : N => if touchedb q size bs ga && grp_verdict HO true ob d size bs ga then [(grp_start bs ga, grp_end size bs ga)] else [])
           (chunk_range_list 0 (sp_blocks size bs)), Ok tt)
    end.
Proof. exact short_data_find_le. Qed.
Print Assumptions C06_short_data_exact_le.

Theorem C06_short_eof :
  forall (HO : hops) (size bs : N) (q : ranges) (ob : outboard HO) (d : bytes HO) (ga : N),
    2 <= sp_blocks size bs -> grp_eof HO ob d size bs q ga = true <-> touched q size bs ga /\ chain_ok HO ob size bs ga /\ blen HO d < grp_bend size bs ga.
Proof. exact grp_eof_iff. Qed.
Print Assumptions C06_short_eof.

Theorem C06_short_data_ok :
  forall (HO : hops) (size bs : N) (q : ranges) (ob : outboard HO),
    size <= 2 ^ 63 ->
    bs <= 10 ->
    wf_ranges q = true ->
    ob_tree ob = mkTree (size) (bs) ->
    loads_ok HO ob size bs ->
    forall d : bytes HO,
    2 <= sp_blocks size bs ->
    (forall ga : N, ga < sp_blocks size bs -> grp_eof HO ob d size bs q ga = false) ->
    valid_ranges HO ob d q = (flat_map (grp_rep HO ob d size bs q) (chunk_range_list 0 (sp_blocks size bs)), Ok tt).
Proof. exact short_data_ok. Qed.
Print Assumptions C06_short_data_ok.

Theorem C06_short_data_err :
  forall (HO : hops) (size bs : N) (q : ranges) (ob : outboard HO),
    size <= 2 ^ 63 ->
    bs <= 10 ->
    wf_ranges q = true ->
    ob_tree ob = mkTree (size) (bs) ->
    loads_ok HO ob size bs ->
    forall (d : bytes HO) (ga : N),
    2 <= sp_blocks size bs ->
    ga < sp_blocks size bs ->
    grp_eof HO ob d size bs q ga = true ->
    (forall ga' : N, ga' < ga -> grp_eof HO ob d size bs q ga' = false) ->
    valid_ranges HO ob d q = (flat_map (grp_rep HO ob d size bs q) (chunk_range_list 0 ga), Err KUnexpectedEof).
Proof. exact short_data_err. Qed.
Print Assumptions C06_short_data_err.

(* the whole blob is in the file: nothing stops; only the first size bytes are looked at *)
Theorem C06_short_data_full :
  forall (HO : hops) (size bs : N) (q : ranges) (ob : outboard HO),
    size <= 2 ^ 63 ->
    bs <= 10 ->
    wf_ranges q = true ->
    ob_tree ob = mkTree (size) (bs) ->
    loads_ok HO ob size bs ->
    forall d : bytes HO,
    2 <= sp_blocks size bs ->
    size <= blen HO d ->
    valid_ranges HO ob d q =
    (flat_map
       (fun ga : N => if touchedb q size bs ga && grp_verdict HO true ob (take HO size d) size bs ga then [(grp_start bs ga, grp_end size bs ga)] else [])
       (chunk_range_list 0 (sp_blocks size bs)), Ok tt).
Proof. exact short_data_full. Qed.
Print Assumptions C06_short_data_full.

Theorem C06_long_data :
  forall (HO : hops) (size bs : N) (q : ranges) (ob : outboard HO),
    size <= 2 ^ 63 ->
    bs <= 10 ->
    wf_ranges q = true ->
    ob_tree ob = mkTree (size) (bs) ->
    loads_ok HO ob size bs -> forall d : bytes HO, size <= blen HO d -> valid_ranges HO ob d q = valid_ranges HO ob (take HO size d) q.
Proof. exact long_data. Qed.
Print Assumptions C06_long_data.

(* membership: touched, chain verifies, bytes inside the file, leaf verifies *)
Theorem C06_short_data_member :
  forall (HO : hops) (size bs : N) (q : ranges) (ob : outboard HO),
    size <= 2 ^ 63 ->
    bs <= 10 ->
    wf_ranges q = true ->
    ob_tree ob = mkTree (size) (bs) ->
    loads_ok HO ob size bs ->
    forall (d : bytes HO) (a e : N),
    2 <= sp_blocks size bs ->
    In (a, e) (fst (valid_ranges HO ob d q)) <->
    (exists ga : N,
       ga < sp_blocks size bs /\
       a = grp_start bs ga /\
       e = grp_end size bs ga /\
       touched q size bs ga /\ chain_ok HO ob size bs ga /\ grp_bend size bs ga <= blen HO d /\ leaf_ok HO (take HO size d) ob size bs ga).
Proof. exact short_data_member. Qed.
Print Assumptions C06_short_data_member.

(* ---- B.2 soundness and completeness for any data file ---- *)
Theorem C06_short_reported_is_true :
  forall HO : hops,
    hash_ok HO ->
    forall (data : bytes HO) (bs : N) (ob : outboard HO),
    blen HO data <= 2 ^ 63 ->
    bs <= 10 ->
    ob_root ob = root_hash HO data ->
    forall q : ranges,
    wf_ranges q = true ->
    ob_tree ob = mkTree (blen HO data) (bs) ->
    loads_ok HO ob (blen HO data) bs ->
    forall (d : bytes HO) (a e : N),
    2 <= sp_blocks (blen HO data) bs ->
    In (a, e) (fst (valid_ranges HO ob d q)) ->
    chunk_bytes HO (take HO (blen HO data) d) a e = chunk_bytes HO data a e /\
    (exists ga : N,
       ga < sp_blocks (blen HO data) bs /\
       a = grp_start bs ga /\ e = grp_end (blen HO data) bs ga /\ grp_bend (blen HO data) bs ga <= blen HO d /\ path_true HO data bs ob ga).
Proof. exact short_reported_is_true. Qed.
Print Assumptions C06_short_reported_is_true.

Theorem C06_short_reported_is_true_le :
  forall HO : hops,
    hash_ok HO ->
    forall (data : bytes HO) (bs : N) (ob : outboard HO),
    blen HO data <= 2 ^ 63 ->
    bs <= 10 ->
    ob_root ob = root_hash HO data ->
    forall q : ranges,
    wf_ranges q = true ->
    ob_tree ob = mkTree (blen HO data) (bs) ->
    loads_ok HO ob (blen HO data) bs ->
    forall (d : bytes HO) (a e : N),
    blen HO d <= blen HO data ->
    2 <= sp_blocks (blen HO data) bs ->
    In (a, e) (fst (valid_ranges HO ob d q)) ->
    chunk_bytes HO d a e = chunk_bytes HO data a e /\
    (exists ga : N,
       ga < sp_blocks (blen HO data) bs /\
       a = grp_start bs ga /\ e = grp_end (blen HO data) bs ga /\ grp_bend (blen HO data) bs ga <= blen HO d /\ path_true HO data bs ob ga).
Proof. exact short_reported_is_true_le. Qed.
Print Assumptions C06_short_reported_is_true_le.

Theorem C06_short_valid_is_reported :
  forall HO : hops,
    hash_ok HO ->
    forall (data : bytes HO) (bs : N) (ob : outboard HO),
    blen HO data <= 2 ^ 63 ->
    bs <= 10 ->
    ob_root ob = root_hash HO data ->
    forall q : ranges,
    wf_ranges q = true ->
    ob_tree ob = mkTree (blen HO data) (bs) ->
    loads_ok HO ob (blen HO data) bs ->
    forall (d : bytes HO) (ga : N),
    2 <= sp_blocks (blen HO data) bs ->
    ga < sp_blocks (blen HO data) bs ->
    touched q (blen HO data) bs ga ->
    path_true HO data bs ob ga ->
    grp_bend (blen HO data) bs ga <= blen HO d ->
    chunk_bytes HO (take HO (blen HO data) d) (grp_start bs ga) (grp_end (blen HO data) bs ga) =
    chunk_bytes HO data (grp_start bs ga) (grp_end (blen HO data) bs ga) ->
    In (grp_start bs ga, grp_end (blen HO data) bs ga) (fst (valid_ranges HO ob d q)).
Proof. exact short_valid_is_reported. Qed.
Print Assumptions C06_short_valid_is_reported.

(* ---- B.3 a single group ---- *)
Theorem C06_short_data_single :
  forall (HO : hops) (size bs : N) (q : ranges) (ob : outboard HO),
    ob_tree ob = mkTree (size) (bs) ->
    forall d : bytes HO,
    sp_blocks size bs = 1 ->
    valid_ranges HO ob d q =
    (if size <=? blen HO d
     then (if bytes_eqb HO (hash_subtree HO 0 (take HO size d) true) (ob_root ob) then [(0, chunks size)] else [], Ok tt)
     else ([], Err KUnexpectedEof)).
Proof. exact short_data_single. Qed.
Print Assumptions C06_short_data_single.

Theorem C06_short_data_single_lt :
  forall (HO : hops) (size bs : N) (q : ranges) (ob : outboard HO),
    ob_tree ob = mkTree (size) (bs) ->
    forall d : bytes HO, sp_blocks size bs = 1 -> blen HO d < size -> valid_ranges HO ob d q = ([], Err KUnexpectedEof).
Proof. exact short_data_single_lt. Qed.
Print Assumptions C06_short_data_single_lt.

Theorem C06_short_single_reported_is_true :
  forall HO : hops,
    hash_ok HO ->
    forall (data : bytes HO) (bs : N) (ob : outboard HO),
    blen HO data <= 2 ^ 63 ->
    bs <= 10 ->
    ob_root ob = root_hash HO data ->
    forall q : ranges,
    ob_tree ob = mkTree (blen HO data) (bs) ->
    forall d : bytes HO,
    sp_blocks (blen HO data) bs = 1 -> fst (valid_ranges HO ob d q) <> [] -> blen HO data <= blen HO d /\ take HO (blen HO data) d = data.
Proof. exact short_single_reported_is_true. Qed.
Print Assumptions C06_short_single_reported_is_true.

(* ---- B.4 the fsm twins (on load_fsm; loads premise about load_fsm only) ---- *)
Theorem C06_fsm_val_spec_e_step :
  forall (HO : hops) (f : nat) (wd : bool) (ob : outboard HO) (d : bytes HO) (size bs : N) (Sel : N -> bool) (ga n : N) (owed : hash HO) (is_root : bool),
    val_spec_e_fsm HO (S f) wd ob d size bs Sel ga n owed is_root =
    (if negb (touchedn Sel size bs ga n)
     then vnil
     else
      if n <=? 1
      then leaf_rep_e HO wd d size bs ga owed is_root
      else
       match stored_pair_fsm HO ob (unshift bs (sid ga n)) with
       | Some (l, r) =>
           if negb (bytes_eqb HO (parent_cv HO l r is_root) owed)
           then vnil
           else
            if n <=? 2
            then
             vseq (if touchedn Sel size bs ga 1 then leaf_rep_e HO wd d size bs ga l false else vnil)
               (if touchedn Sel size bs (ga + 1) 1 then leaf_rep_e HO wd d size bs (ga + 1) r false else vnil)
            else
             let half := capof n / 2 in
             vseq (val_spec_e_fsm HO f wd ob d size bs Sel ga half l false) (val_spec_e_fsm HO f wd ob d size bs Sel (ga + half) (n - half) r false)
       | None => vnil
       end).
Proof. exact val_spec_e_fsm_eq. Qed.
Print Assumptions C06_fsm_val_spec_e_step.

Theorem C06_fsm_val_top_e_def :
  forall (HO : hops) (wd : bool) (ob : outboard HO) (d : bytes HO) (size bs : N) (q : ranges),
  val_top_e_fsm HO wd ob d size bs q =
  val_spec_e_fsm HO VFUEL wd ob d size bs (sel q size) 0 (sp_blocks size bs) (ob_root ob) true.
Proof. exact val_top_e_fsm_eq. Qed.
Print Assumptions C06_fsm_val_top_e_def.

Theorem C06_fsm_grp_eof_def :
  forall (HO : hops) (ob : outboard HO) (d : bytes HO) (size bs : N) (q : ranges) (ga : N),
  grp_eof_fsm HO ob d size bs q ga =
  touchedb q size bs ga && grp_verdict_fsm HO false ob [] size bs ga && negb (grp_bend size bs ga <=? blen HO d).
Proof. reflexivity. Qed.
Print Assumptions C06_fsm_grp_eof_def.

Theorem C06_fsm_grp_rep_def :
  forall (HO : hops) (ob : outboard HO) (d : bytes HO) (size bs : N) (q : ranges) (ga : N),
  grp_rep_fsm HO ob d size bs q ga =
  if touchedb q size bs ga && grp_verdict_fsm HO true ob (take HO size d) size bs ga
  then [(grp_start bs ga, grp_end size bs ga)] else [].
Proof. reflexivity. Qed.
Print Assumptions C06_fsm_grp_rep_def.

Theorem C06_fsm_short_data_spec :
  forall (HO : hops) (size bs : N) (q : ranges) (ob : outboard HO),
    size <= 2 ^ 63 ->
    bs <= 10 ->
    wf_ranges q = true ->
    ob_tree ob = mkTree (size) (bs) ->
    loads_ok_fsm HO ob size bs -> forall d : bytes HO, 2 <= sp_blocks size bs -> valid_ranges_fsm HO ob d q = val_top_e_fsm HO true ob d size bs q.
Proof. exact fsm_short_data_spec. Qed.
Print Assumptions C06_fsm_short_data_spec.

Theorem C06_fsm_short_data_exact :
  forall (HO : hops) (size bs : N) (q : ranges) (ob : outboard HO),
    size <= 2 ^ 63 ->
    bs <= 10 ->
    wf_ranges q = true ->
    ob_tree ob = mkTree (size) (bs) ->
    loads_ok_fsm HO ob size bs ->
    forall d : bytes HO,
    2 <= sp_blocks size bs ->
    valid_ranges_fsm HO ob d q =
    match find (grp_eof_fsm HO ob d size bs q) (chunk_range_list 0 (sp_blocks size bs)) with
    | Some ga => (flat_map (grp_rep_fsm HO ob d size bs q) (chunk_range_list 0 ga), Err KUnexpectedEof)
    | None => (flat_map (grp_rep_fsm HO ob d size bs q) (chunk_range_list 0 (sp_blocks size bs)), Ok tt)
    end.
Proof. exact fsm_short_data_find. Qed.
Print Assumptions C06_fsm_short_data_exact.

Theorem C06_fsm_short_data_exact_le :
  forall (HO : hops) (size bs : N) (q : ranges) (ob : outboard HO),
    size <= 2 ^ 63 ->
    bs <= 10 ->
    wf_ranges q = true ->
    ob_tree ob = mkTree (size) (bs) ->
    loads_ok_fsm HO ob size bs ->
    forall d : bytes HO,
    blen HO d <= size ->
    2 <= sp_blocks size bs ->
    valid_ranges_fsm HO ob d q =
    match find (grp_eof_fsm HO ob d size bs q) (chunk_range_list 0 (sp_blocks size bs)) with
    | Some ga =>
        (flat_map
           (fun ga0 : N => if touchedb q size bs ga0 && grp_verdict_fsm HO true ob d size bs ga0 then [(grp_start bs ga0, grp_end size bs ga0)] else [])
           (chunk_range_list 0 ga), Err KUnexpectedEof)
    | None =>
        (flat_map (fun ga : N => if touchedb q size bs ga && grp_verdict_fsm HO true ob d size bs ga then [(grp_start bs ga, grp_end size bs ga)] else [])
           (chunk_range_list 0 (sp_blocks size bs)), Ok tt)
    end.
Proof. exact fsm_short_data_find_le. Qed.
Print Assumptions C06_fsm_short_data_exact_le.

Theorem C06_fsm_short_eof :
  forall (HO : hops) (size bs : N) (q : ranges) (ob : outboard HO),
    size <= 2 ^ 63 ->
    bs <= 10 ->
    ob_tree ob = mkTree (size) (bs) ->
    forall (d : bytes HO) (ga : N),
    2 <= sp_blocks size bs ->
    grp_eof_fsm HO ob d size bs q ga = true <-> touched q size bs ga /\ chain_ok_fsm HO ob size bs ga /\ blen HO d < grp_bend size bs ga.
Proof. exact fsm_grp_eof_iff. Qed.
Print Assumptions C06_fsm_short_eof.

Theorem C06_fsm_short_data_ok :
  forall (HO : hops) (size bs : N) (q : ranges) (ob : outboard HO),
    size <= 2 ^ 63 ->
    bs <= 10 ->
    wf_ranges q = true ->
    ob_tree ob = mkTree (size) (bs) ->
    loads_ok_fsm HO ob size bs ->
    forall d : bytes HO,
    2 <= sp_blocks size bs ->
    (forall ga : N, ga < sp_blocks size bs -> grp_eof_fsm HO ob d size bs q ga = false) ->
    valid_ranges_fsm HO ob d q = (flat_map (grp_rep_fsm HO ob d size bs q) (chunk_range_list 0 (sp_blocks size bs)), Ok tt).
Proof. exact fsm_short_data_ok. Qed.
Print Assumptions C06_fsm_short_data_ok.

Theorem C06_fsm_short_data_err :
  forall (HO : hops) (size bs : N) (q : ranges) (ob : outboard HO),
    size <= 2 ^ 63 ->
    bs <= 10 ->
    wf_ranges q = true ->
    ob_tree ob = mkTree (size) (bs) ->
    loads_ok_fsm HO ob size bs ->
    forall (d : bytes HO) (ga : N),
    2 <= sp_blocks size bs ->
    ga < sp_blocks size bs ->
    grp_eof_fsm HO ob d size bs q ga = true ->
    (forall ga' : N, ga' < ga -> grp_eof_fsm HO ob d size bs q ga' = false) ->
    valid_ranges_fsm HO ob d q = (flat_map (grp_rep_fsm HO ob d size bs q) (chunk_range_list 0 ga), Err KUnexpectedEof).
Proof. exact fsm_short_data_err. Qed.
Print Assumptions C06_fsm_short_data_err.

Theorem C06_fsm_long_data :
  forall (HO : hops) (size bs : N) (q : ranges) (ob : outboard HO),
    size <= 2 ^ 63 ->
    bs <= 10 ->
    wf_ranges q = true ->
    ob_tree ob = mkTree (size) (bs) ->
    loads_ok_fsm HO ob size bs -> forall d : bytes HO, size <= blen HO d -> valid_ranges_fsm HO ob d q = valid_ranges_fsm HO ob (take HO size d) q.
Proof. exact fsm_long_data. Qed.
Print Assumptions C06_fsm_long_data.

Theorem C06_fsm_short_data_member :
  forall (HO : hops) (size bs : N) (q : ranges) (ob : outboard HO),
    size <= 2 ^ 63 ->
    bs <= 10 ->
    wf_ranges q = true ->
    ob_tree ob = mkTree (size) (bs) ->
    loads_ok_fsm HO ob size bs ->
    forall (d : bytes HO) (a e : N),
    2 <= sp_blocks size bs ->
    In (a, e) (fst (valid_ranges_fsm HO ob d q)) <->
    (exists ga : N,
       ga < sp_blocks size bs /\
       a = grp_start bs ga /\
       e = grp_end size bs ga /\
       touched q size bs ga /\ chain_ok_fsm HO ob size bs ga /\ grp_bend size bs ga <= blen HO d /\ leaf_ok_fsm HO (take HO size d) ob size bs ga).
Proof. exact fsm_short_data_member. Qed.
Print Assumptions C06_fsm_short_data_member.

Theorem C06_fsm_short_reported_is_true :
  forall HO : hops,
    hash_ok HO ->
    forall (data : bytes HO) (bs : N) (ob : outboard HO),
    blen HO data <= 2 ^ 63 ->
    bs <= 10 ->
    ob_root ob = root_hash HO data ->
    ob_tree ob = mkTree (blen HO data) (bs) ->
    forall q : ranges,
    wf_ranges q = true ->
    loads_ok_fsm HO ob (blen HO data) bs ->
    forall (d : bytes HO) (a e : N),
    2 <= sp_blocks (blen HO data) bs ->
    In (a, e) (fst (valid_ranges_fsm HO ob d q)) ->
    chunk_bytes HO (take HO (blen HO data) d) a e = chunk_bytes HO data a e /\
    (exists ga : N,
       ga < sp_blocks (blen HO data) bs /\
       a = grp_start bs ga /\ e = grp_end (blen HO data) bs ga /\ grp_bend (blen HO data) bs ga <= blen HO d /\ path_true_fsm HO data bs ob ga).
Proof. exact fsm_short_reported_is_true. Qed.
Print Assumptions C06_fsm_short_reported_is_true.

Theorem C06_fsm_short_reported_is_true_le :
  forall HO : hops,
    hash_ok HO ->
    forall (data : bytes HO) (bs : N) (ob : outboard HO),
    blen HO data <= 2 ^ 63 ->
    bs <= 10 ->
    ob_root ob = root_hash HO data ->
    ob_tree ob = mkTree (blen HO data) (bs) ->
    forall q : ranges,
    wf_ranges q = true ->
    loads_ok_fsm HO ob (blen HO data) bs ->
    forall (d : bytes HO) (a e : N),
    blen HO d <= blen HO data ->
    2 <= sp_blocks (blen HO data) bs ->
    In (a, e) (fst (valid_ranges_fsm HO ob d q)) ->
    chunk_bytes HO d a e = chunk_bytes HO data a e /\
    (exists ga : N,
       ga < sp_blocks (blen HO data) bs /\
       a = grp_start bs ga /\ e = grp_end (blen HO data) bs ga /\ grp_bend (blen HO data) bs ga <= blen HO d /\ path_true_fsm HO data bs ob ga).
Proof. exact fsm_short_reported_is_true_le. Qed.
Print Assumptions C06_fsm_short_reported_is_true_le.

Theorem C06_fsm_short_valid_is_reported :
  forall HO : hops,
    hash_ok HO ->
    forall (data : bytes HO) (bs : N) (ob : outboard HO),
    blen HO data <= 2 ^ 63 ->
    bs <= 10 ->
    ob_root ob = root_hash HO data ->
    ob_tree ob = mkTree (blen HO data) (bs) ->
    forall q : ranges,
    wf_ranges q = true ->
    loads_ok_fsm HO ob (blen HO data) bs ->
    forall (d : bytes HO) (ga : N),
    2 <= sp_blocks (blen HO data) bs ->
    ga < sp_blocks (blen HO data) bs ->
    touched q (blen HO data) bs ga ->
    path_true_fsm HO data bs ob ga ->
    grp_bend (blen HO data) bs ga <= blen HO d ->
    chunk_bytes HO (take HO (blen HO data) d) (grp_start bs ga) (grp_end (blen HO data) bs ga) =
    chunk_bytes HO data (grp_start bs ga) (grp_end (blen HO data) bs ga) ->
    In (grp_start bs ga, grp_end (blen HO data) bs ga) (fst (valid_ranges_fsm HO ob d q)).
Proof. exact fsm_short_valid_is_reported. Qed.
Print Assumptions C06_fsm_short_valid_is_reported.

Theorem C06_fsm_short_data_single :
  forall (HO : hops) (size bs : N) (q : ranges) (ob : outboard HO),
    ob_tree ob = mkTree (size) (bs) ->
    forall d : bytes HO,
    sp_blocks size bs = 1 ->
    valid_ranges_fsm HO ob d q =
    (if size <=? blen HO d
     then (if bytes_eqb HO (hash_subtree HO 0 (take HO size d) true) (ob_root ob) then [(0, chunks size)] else [], Ok tt)
     else ([], Err KUnexpectedEof)).
Proof. exact fsm_short_data_single. Qed.
Print Assumptions C06_fsm_short_data_single.

Theorem C06_fsm_short_data_single_lt :
  forall (HO : hops) (size bs : N) (q : ranges) (ob : outboard HO),
    ob_tree ob = mkTree (size) (bs) ->
    forall d : bytes HO, sp_blocks size bs = 1 -> blen HO d < size -> valid_ranges_fsm HO ob d q = ([], Err KUnexpectedEof).
Proof. exact fsm_short_data_single_lt. Qed.
Print Assumptions C06_fsm_short_data_single_lt.

Theorem C06_fsm_short_single_reported_is_true :
  forall HO : hops,
    hash_ok HO ->
    forall (data : bytes HO) (bs : N) (ob : outboard HO),
    blen HO data <= 2 ^ 63 ->
    bs <= 10 ->
    ob_root ob = root_hash HO data ->
    ob_tree ob = mkTree (blen HO data) (bs) ->
    forall (q : ranges) (d : bytes HO),
    sp_blocks (blen HO data) bs = 1 -> fst (valid_ranges_fsm HO ob d q) <> [] -> blen HO data <= blen HO d /\ take HO (blen HO data) d = data.
Proof. exact fsm_short_single_reported_is_true. Qed.
Print Assumptions C06_fsm_short_single_reported_is_true.

(* ---- B.5 non-vacuity, and one refuted clause ---- *)
(* a data file of 4101 of 5120 bytes, intact outboard: four groups, then UnexpectedEof; no error when the query does
   not touch the unreadable group *)
Theorem C06_short_nonvacuous :
  exists (HO : hops) (data : bytes HO) (bs : N) (ob : outboard HO) (q : ranges) (d : bytes HO),
      hash_ok HO /\
      blen HO data <= 2 ^ 63 /\
      bs <= 10 /\
      ob_root ob = root_hash HO data /\
      wf_ranges q = true /\
      ob_tree ob = mkTree (blen HO data) (bs) /\
      loads_ok HO ob (blen HO data) bs /\
      2 <= sp_blocks (blen HO data) bs /\
      blen HO d < blen HO data /\
      grp_eof HO ob d (blen HO data) bs q 4 = true /\
      (forall ga' : N, ga' < 4 -> grp_eof HO ob d (blen HO data) bs q ga' = false) /\
      valid_ranges HO ob d q = ([(0, 1); (1, 2); (2, 3); (3, 4)], Err KUnexpectedEof) /\
      In (3, 4) (fst (valid_ranges HO ob d q)) /\
      touched q (blen HO data) bs 3 /\
      path_true HO data bs ob 3 /\
      grp_bend (blen HO data) bs 3 <= blen HO d /\
      chunk_bytes HO (take HO (blen HO data) d) (grp_start bs 3) (grp_end (blen HO data) bs 3) =
      chunk_bytes HO data (grp_start bs 3) (grp_end (blen HO data) bs 3) /\ valid_ranges HO ob d [3; 4] = ([(3, 4)], Ok tt).
Proof. exact gapB_short_nonvacuous. Qed.
Print Assumptions C06_short_nonvacuous.

(* truncated io-backed outboard and short data file *)
Theorem C06_fsm_short_nonvacuous :
  exists (HO : hops) (data : bytes HO) (bs : N) (ob : outboard HO) (q : ranges) (d : bytes HO),
      hash_ok HO /\
      blen HO data <= 2 ^ 63 /\
      bs <= 10 /\
      ob_root ob = root_hash HO data /\
      wf_ranges q = true /\
      ob_tree ob = mkTree (blen HO data) (bs) /\
      loads_ok_fsm HO ob (blen HO data) bs /\
      blen HO (ob_data ob) < (sp_blocks (blen HO data) bs - 1) * 64 /\
      2 <= sp_blocks (blen HO data) bs /\
      blen HO d < blen HO data /\
      grp_eof_fsm HO ob d (blen HO data) bs q 4 = true /\
      (forall ga' : N, ga' < 4 -> grp_eof_fsm HO ob d (blen HO data) bs q ga' = false) /\
      valid_ranges_fsm HO ob d q = ([(0, 1); (1, 2)], Err KUnexpectedEof) /\
      In (1, 2) (fst (valid_ranges_fsm HO ob d q)) /\
      touched q (blen HO data) bs 1 /\
      path_true_fsm HO data bs ob 1 /\
      grp_bend (blen HO data) bs 1 <= blen HO d /\
      chunk_bytes HO (take HO (blen HO data) d) (grp_start bs 1) (grp_end (blen HO data) bs 1) =
      chunk_bytes HO data (grp_start bs 1) (grp_end (blen HO data) bs 1).
Proof. exact gapB_short_fsm_nonvacuous. Qed.
Print Assumptions C06_fsm_short_nonvacuous.

Theorem C06_short_single_nonvacuous :
  exists (HO : hops) (size bs : N) (q : ranges) (ob : outboard HO) (d : bytes HO),
      ob_tree ob = mkTree (size) (bs) /\
      sp_blocks size bs = 1 /\
      blen HO d < size /\ valid_ranges HO ob d q = ([], Err KUnexpectedEof) /\ valid_ranges_fsm HO ob d q = ([], Err KUnexpectedEof).
Proof. exact gapB_single_nonvacuous. Qed.
Print Assumptions C06_short_single_nonvacuous.

(* REFUTED clause: for a data file LONGER than the blob "chunk_bytes d a e = chunk_bytes data a e" fails for the last
   group of a blob that does not end on a chunk boundary (chunk_bytes d takes surplus bytes the validator never reads);
   what holds is C06_short_reported_is_true, on take size d.  Not a defect of the crate *)
Theorem C06_reported_long_refuted :
  exists (HO : hops) (data : bytes HO) (bs : N) (ob : outboard HO) (q : ranges) (d : bytes HO) (a e : N),
      hash_ok HO /\
      blen HO data <= 2 ^ 63 /\
      bs <= 10 /\
      ob_root ob = root_hash HO data /\
      wf_ranges q = true /\
      ob_tree ob = mkTree (blen HO data) (bs) /\
      loads_ok HO ob (blen HO data) bs /\
      loads_ok_fsm HO ob (blen HO data) bs /\
      2 <= sp_blocks (blen HO data) bs /\
      blen HO data < blen HO d /\
      In (a, e) (fst (valid_ranges HO ob d q)) /\
      In (a, e) (fst (valid_ranges_fsm HO ob d q)) /\
      chunk_bytes HO d a e <> chunk_bytes HO data a e /\ chunk_bytes HO (take HO (blen HO data) d) a e = chunk_bytes HO data a e.
Proof. exact short_reported_long_refuted. Qed.
Print Assumptions C06_reported_long_refuted.


(* ---- collision form (Proofs/Collision.v; depends on Classical_Prop.classic and on nothing else): the idealised hypothesis
   cv_injective is dropped; under 32-byte outputs and a correct byte comparison the conclusion holds OR the hash functions
   have a collision between two distinct valid inputs ---- *)
From BaoV Require Import Proofs.Collision.
Theorem C06_reported_is_true_or_collision : forall (HO : hops), cv_len32 HO -> beq_correct HO ->
  (forall (data : bytes HO) (bs : N) (ob : outboard HO),
  blen HO data <= 2 ^ 63 -> bs <= 10 -> ob_root ob = root_hash HO data ->
  forall q : ranges, wf_ranges q = true ->
  ob_tree ob = mkTree (blen HO data) bs -> loads_ok HO ob (blen HO data) bs ->
  forall (d : bytes HO) (a e : N), blen HO d = blen HO data -> 2 <= sp_blocks (blen HO data) bs ->
  In (a, e) (fst (valid_ranges HO ob d q)) ->
  chunk_bytes HO d a e = chunk_bytes HO data a e /\
  exists ga, ga < sp_blocks (blen HO data) bs /\ a = grp_start bs ga /\ e = grp_end (blen HO data) bs ga /\
             path_true HO data bs ob ga) \/
  collision HO.
Proof. intros HO Hl Hb. apply (or_collision HO _ Hl Hb). exact (C06_reported_is_true HO). Qed.
Print Assumptions C06_reported_is_true_or_collision.

Theorem C06_outboard_reported_is_true_or_collision : forall (HO : hops), cv_len32 HO -> beq_correct HO ->
  (forall (data : bytes HO) (bs : N) (ob : outboard HO),
  blen HO data <= 2 ^ 63 -> bs <= 10 -> ob_root ob = root_hash HO data ->
  forall q : ranges, wf_ranges q = true ->
  ob_tree ob = mkTree (blen HO data) bs -> loads_ok HO ob (blen HO data) bs ->
  forall a e : N, 2 <= sp_blocks (blen HO data) bs ->
  In (a, e) (fst (valid_outboard_ranges HO ob q)) ->
  exists ga, ga < sp_blocks (blen HO data) bs /\ a = grp_start bs ga /\ e = grp_end (blen HO data) bs ga /\
             path_true HO data bs ob ga) \/
  collision HO.
Proof. intros HO Hl Hb. apply (or_collision HO _ Hl Hb). exact (C06_outboard_reported_is_true HO). Qed.
Print Assumptions C06_outboard_reported_is_true_or_collision.

